#!/bin/bash
# Builds the verifier from the sources in /verif/engine (offline; golang.org/x/tools v0.29.0 from the module cache).
cd "$(dirname "$0")/engine" || exit 1
export GOFLAGS=-mod=mod GOPROXY=off GOSUMDB=off GOTOOLCHAIN=local
mkdir -p ../bin ../evidence
go build -o ../bin/vcgo . || exit 1
echo "vcgo built"
