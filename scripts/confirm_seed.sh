#!/bin/bash
# confirm_seed.sh <name>   e.g. C10a : confirms a seeded change delivered in /tmp/seed/<name> in a scratch worktree
# (demo fails with the change, passes without; project builds; baseline suite unchanged), then files it under /verif/seeded/<name>/
export GOFLAGS=-mod=mod GOPROXY=off GOSUMDB=off GOTOOLCHAIN=local
N=$1; SRC=/tmp/seed/$N; WT=/tmp/wtc/$N
[ -f $SRC/patch.diff ] || { echo "no patch for $N"; exit 2; }
rm -rf $WT; mkdir -p /tmp/wtc; git -C /repo worktree add -q --detach $WT HEAD || exit 2
trap 'git -C /repo worktree remove --force $WT 2>/dev/null' EXIT
cd $WT
DEMO_REL=$(cd /tmp/wt/$N 2>/dev/null && git status --short | grep -o '[^ ]*zz_seed_demo_test.go' | head -1)
[ -z "$DEMO_REL" ] && DEMO_REL=$(python3 -c "import json;print(json.load(open('$SRC/meta.json')).get('demo_path',''))")
[ -z "$DEMO_REL" ] && { echo "demo location unknown"; exit 2; }
PKG=./$(dirname $DEMO_REL)
cp $SRC/zz_seed_demo_test.go $DEMO_REL
echo "== without the change: demo must pass"
go test -vet=off -count=1 -run 'SeedDemo|Seed' $PKG > /tmp/wtc/$N.without.log 2>&1; W=$?
tail -3 /tmp/wtc/$N.without.log
git apply $SRC/patch.diff || { echo "patch does not apply"; exit 2; }
echo "== with the change: build, demo must fail"
go build ./... || { echo "BUILD FAILS"; exit 2; }
go test -vet=off -count=1 -run 'SeedDemo|Seed' $PKG > /tmp/wtc/$N.with.log 2>&1; F=$?
tail -5 /tmp/wtc/$N.with.log
rm -f $DEMO_REL
echo "== with the change: pinned suite"
/verif/scripts/baseline.sh $WT > /tmp/wtc/$N.base.log 2>&1; B=$?
if [ $B -ne 0 ]; then /verif/scripts/baseline.sh $WT > /tmp/wtc/$N.base.log 2>&1; B=$?; fi
tail -2 /tmp/wtc/$N.base.log
echo "RESULT $N: demo_without=$W (want 0) demo_with=$F (want !=0) baseline=$B (want 0)"
if [ $W -eq 0 ] && [ $F -ne 0 ] && [ $B -eq 0 ]; then
  mkdir -p /verif/seeded/$N
  cp $SRC/patch.diff $SRC/zz_seed_demo_test.go /verif/seeded/$N/
  python3 - <<PY
import json
m=json.load(open('$SRC/meta.json'))
m['demo_path']='$DEMO_REL'
m['confirmed']={'by':'scripts/confirm_seed.sh in a scratch worktree of /repo HEAD','demo_without_change':'pass','demo_with_change':'fail','go_build':'ok','pinned_suite_with_change':'191 stable tests pass'}
json.dump(m,open('/verif/seeded/$N/meta.json','w'),indent=1)
PY
  echo "FILED /verif/seeded/$N"
fi
