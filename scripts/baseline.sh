#!/bin/bash
# Runs the repository's pinned test suite (guard OFF: no -tags verif) and compares with /root/.vp/BASELINE.json.
# usage: baseline.sh [repo-dir]
export GOFLAGS=-mod=mod GOPROXY=off GOSUMDB=off GOTOOLCHAIN=local
REPO=${1:-/repo}
OUT=$(mktemp)
MODTMP=$(mktemp -d)
cp $REPO/go.mod $REPO/go.sum $MODTMP/
(cd $REPO && go test -modfile=$MODTMP/go.mod -json -vet=off -count=1 -timeout 25m ./... > $OUT 2>/dev/null)
python3 - "$OUT" <<'PY'
import json,sys
base=json.load(open('/root/.vp/BASELINE.json'))
stable=set(base['stable_pass'])
res={}
for l in open(sys.argv[1]):
    try: e=json.loads(l)
    except: continue
    if e.get('Test') and e.get('Action') in('pass','fail','skip'):
        res[e['Package']+'::'+e['Test']]=e['Action']
missing=[t for t in stable if res.get(t)!='pass']
print('stable baseline tests: %d, passing now: %d, not passing: %d'%(len(stable),len(stable)-len(missing),len(missing)))
for m in sorted(missing): print('  NOT PASSING:',m,res.get(m))
print('total pass=%d fail=%d'%(sum(1 for v in res.values() if v=='pass'),sum(1 for v in res.values() if v=='fail')))
sys.exit(1 if missing else 0)
PY
rc=$?
rm -rf $OUT $MODTMP
exit $rc
