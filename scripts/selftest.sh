#!/bin/bash
# Must-fail corpus: every seeded change under /verif/seeded (and /verif/selftest/mutants) is applied to a scratch copy of
# /repo (outside /repo and /verif), the check of its property is run against that copy, and the run must report a
# VIOLATION (exit 1). Behaviour-preserving edits under selftest/benign (expect: pass) must leave the check green: they
# guard against alarms on code where the property still holds. The scratch copy is removed afterwards.
# usage: selftest.sh [name ...]
export GOFLAGS=-mod=mod GOPROXY=off GOSUMDB=off GOTOOLCHAIN=local
cd "$(dirname "$0")/.."
[ -x bin/vcgo ] || ./setup.sh >/dev/null
TMP=$(mktemp -d /tmp/vselftest.XXXXXX); trap 'rm -rf $TMP' EXIT
names="$@"; [ -z "$names" ] && names=$(ls seeded selftest/mutants selftest/benign 2>/dev/null | grep -v : | sort -u)
ok=0; bad=0
for n in $names; do
  d=seeded/$n; [ -d $d ] || d=selftest/mutants/$n; [ -d $d ] || d=selftest/benign/$n
  [ -f $d/patch.diff ] || continue
  prop=$(python3 -c "import json;print(json.load(open('$d/meta.json'))['property'])")
  expect=$(python3 -c "import json;print(json.load(open('$d/meta.json')).get('expect','caught'))")
  [ -f checks/$prop.json ] || { echo "SKIP $n ($prop has no check yet)"; continue; }
  rm -rf $TMP/repo; cp -r /repo $TMP/repo; rm -rf $TMP/repo/.git
  (cd $TMP/repo && patch -p1 -s < /verif/$d/patch.diff) || { echo "PATCH-FAILS $n"; bad=$((bad+1)); continue; }
  mkdir -p $TMP/verif; rm -rf $TMP/verif/*; cp -r checks spec known_findings.json $TMP/verif/ 2>/dev/null
  out=$(VERIF_REPO=$TMP/repo VERIF_DIR=$TMP/verif ./bin/vcgo check $prop --tier quick 2>&1); rc=$?
  viol=$(echo "$out" | grep -c '^VIOLATION')
  obl=$(echo "$out" | grep -m2 'obligation ' | sed 's/^ *obligation //' | cut -c1-90 | tr '\n' '|')
  if [ $rc -eq 1 ] && [ $viol -gt 0 ]; then r=caught; elif [ $rc -eq 0 ] && [ $viol -eq 0 ]; then r=pass; else r=broken; fi
  [ "$expect" = missed ] && [ $r = pass ] && r=missed
  if [ "$r" = "$expect" ]; then ok=$((ok+1)); echo "OK   $n ($prop): $r  $obl"; else bad=$((bad+1)); echo "BAD  $n ($prop): $r, expected $expect (exit $rc)"; fi
done
echo "selftest: $ok as expected, $bad not"
[ $bad -eq 0 ]
