package main

import (
	"flag"
	"go/types"
	"fmt"
	"os"
	"path/filepath"
	"sort"
	"strings"

	"golang.org/x/tools/go/ssa"
)

var verifDir = "/verif"

func loadSpecs(w *World) (*SpecSet, error) {
	ss := newSpecSet()
	// prelude / external specs shipped with the framework
	files, _ := filepath.Glob(filepath.Join(verifDir, "spec", "*.spec"))
	sort.Strings(files)
	for _, f := range files {
		b, err := os.ReadFile(f)
		if err != nil {
			return nil, err
		}
		var lines []string
		for _, l := range strings.Split(string(b), "\n") {
			t := strings.TrimSpace(l)
			if strings.HasPrefix(t, "//@") {
				lines = append(lines, strings.TrimPrefix(t, "//@"))
			}
		}
		if err := ss.parseContractLines(lines, "", f); err != nil {
			return nil, err
		}
	}
	for _, cf := range w.contractFiles() {
		if err := ss.parseContractLines(cf.Lines, cf.Pkg.PkgPath, cf.File); err != nil {
			return nil, err
		}
	}
	w.renameNotes = healRenames(w, ss)
	for _, n := range w.renameNotes {
		fmt.Println("NOTE", n)
	}
	return ss, nil
}

func main() {
	if len(os.Args) < 2 {
		fmt.Fprintln(os.Stderr, "usage: vcgo dump <func> | verify [-t sec] <func>... | check <property> [--tier quick|thorough]")
		os.Exit(2)
	}
	if d := os.Getenv("VERIF_REPO"); d != "" {
		repoDir = d
	}
	if d := os.Getenv("VERIF_DIR"); d != "" {
		verifDir = d
	}
	switch os.Args[1] {
	case "dump":
		w, err := loadWorld([]string{"./..."})
		if err != nil {
			fmt.Fprintln(os.Stderr, err)
			os.Exit(2)
		}
		defer w.Close()
		for _, n := range os.Args[2:] {
			fn, err := w.find(n)
			if err != nil {
				fmt.Fprintln(os.Stderr, err)
				continue
			}
			fn.WriteTo(os.Stdout)
			for _, a := range fn.AnonFuncs {
				a.WriteTo(os.Stdout)
			}
		}
	case "verify":
		fs := flag.NewFlagSet("verify", flag.ExitOnError)
		sec := fs.Int("t", 10, "solver timeout (s)")
		keep := fs.String("keep", "", "directory to keep scripts in")
		nosweep := fs.Bool("nosweep", false, "no safety obligations")
		all := fs.Bool("all", false, "run all solvers to completion")
		verbose := fs.Bool("v", false, "print notes")
		fs.Parse(os.Args[2:])
		w, err := loadWorld([]string{"./..."})
		if err != nil {
			fmt.Fprintln(os.Stderr, err)
			os.Exit(2)
		}
		defer w.Close()
		ss, err := loadSpecs(w)
		if err != nil {
			fmt.Fprintln(os.Stderr, "CONTRACT-ERROR", err)
			os.Exit(2)
		}
		var results []*FuncResult
		for _, n := range fs.Args() {
			if n == "lemmas" {
				results = append(results, verifyLemmas(w, ss))
				continue
			}
			if strings.HasPrefix(n, "type:") {
				for _, fn := range w.funcsOfType(strings.TrimPrefix(n, "type:")) {
					results = append(results, verifyFunc(w, ss, fn, !*nosweep))
				}
				continue
			}
			fn, err := w.find(n)
			if err != nil {
				fmt.Fprintln(os.Stderr, err)
				continue
			}
			results = append(results, verifyFunc(w, ss, fn, !*nosweep))
		}
		dir := *keep
		if dir == "" {
			dir = filepath.Join(w.Scratch, "smt")
		}
		os.MkdirAll(dir, 0755)
		solveAll(results, dir, *sec, *all, 10)
		bad := 0
		errShown := map[string]bool{}
		for _, r := range results {
			fmt.Printf("== %s: %d obligations\n", r.Name, len(r.Obls))
			for _, er := range r.Errors {
				fmt.Println("   ", er)
				bad++
			}
			if *verbose {
				for _, n := range r.Notes {
					fmt.Println("    note:", n)
				}
				for _, n := range r.OutOfSubset {
					fmt.Println("    out-of-subset:", n)
				}
			}
			for _, o := range r.Obls {
				mark := "ok  "
				if !o.discharged() {
					mark = "FAIL"
					bad++
				}
				fmt.Printf("   %s %-60s %-8s %-10s %5.2fs  %s:%d  %s\n", mark, strings.TrimPrefix(o.Name, r.Name+"/"), o.Result.Status, o.Result.Solver, o.Result.Seconds, filepath.Base(o.Pos.Filename), o.Pos.Line, trunc(o.Text, 70))
				if o.Result.Status == "error" && !errShown[r.Name] {
					errShown[r.Name] = true
					fmt.Println("        ", trunc(o.Result.Output, 400))
				}
			}
		}
		if bad > 0 {
			os.Exit(1)
		}
	case "check":
		os.Exit(checkMain(os.Args[2:]))
	case "shapes":
		os.Exit(shapesCmd(os.Args[2:]))
	case "mapranges":
		w, err := loadWorld([]string{"./..."})
		if err != nil {
			fmt.Fprintln(os.Stderr, err)
			os.Exit(2)
		}
		defer w.Close()
		var out []string
		for _, fn := range w.allRepoFuncs() {
			if !inRepo(fn) || fn.Blocks == nil || strings.HasSuffix(w.Prog.Fset.Position(fn.Pos()).Filename, "_test.go") {
				continue
			}
			n := 0
			for _, b := range fn.Blocks {
				for _, in := range b.Instrs {
					if r, ok := in.(*ssa.Range); ok {
						if _, isMap := r.X.Type().Underlying().(*types.Map); isMap {
							n++
						}
					}
				}
			}
			if n > 0 {
				out = append(out, fmt.Sprintf("%s %d %s", fnFull(fn), n, w.Prog.Fset.Position(fn.Pos()).Filename))
			}
		}
		sort.Strings(out)
		for _, l := range out {
			fmt.Println(l)
		}
	case "locals":
		// records the declared variables of every function under contract (spec/locals.json); run after contracts change
		w, err := loadWorld([]string{"./..."})
		if err != nil {
			fmt.Fprintln(os.Stderr, err)
			os.Exit(2)
		}
		defer w.Close()
		os.Remove(localsFile())
		ss, err := loadSpecs(w)
		if err != nil {
			fmt.Fprintln(os.Stderr, "CONTRACT-ERROR", err)
			os.Exit(2)
		}
		if err := writeLocals(w, ss); err != nil {
			fmt.Fprintln(os.Stderr, err)
			os.Exit(2)
		}
	case "funcs":
		w, err := loadWorld([]string{"./..."})
		if err != nil {
			fmt.Fprintln(os.Stderr, err)
			os.Exit(2)
		}
		defer w.Close()
		var ks []string
		for k := range w.Funcs {
			ks = append(ks, k)
		}
		sort.Strings(ks)
		for _, k := range ks {
			if len(os.Args) > 2 && !strings.Contains(k, os.Args[2]) {
				continue
			}
			fmt.Println(k)
		}
	default:
		fmt.Fprintln(os.Stderr, "unknown command", os.Args[1])
		os.Exit(2)
	}
}

func trunc(s string, n int) string {
	s = strings.ReplaceAll(s, "\n", " ")
	if len(s) > n {
		return s[:n] + "…"
	}
	return s
}

var _ = ssa.GlobalDebug

// shapesCmd: print what the grammar-shape generator derives for one generated parser package (debugging aid)
func shapesCmd(args []string) int {
	w, err := loadWorld([]string{"./..."})
	if err != nil {
		fmt.Println(err)
		return 2
	}
	defer w.Close()
	path := modPath + "/languages/" + args[0]
	db := w.shapeSet().forPkg(path)
	if db == nil {
		fmt.Println("no shapes:", w.shapeNotes)
		return 1
	}
	var names []string
	for n := range db.ctx {
		names = append(names, n)
	}
	sort.Strings(names)
	fmt.Printf("%d context types, %d rules, %d with accessor mismatch, start rules %v\n", len(names), len(db.g.rules), len(db.bad), db.start)
	for _, n := range names {
		if len(args) > 1 && !strings.Contains(n, args[1]) {
			continue
		}
		cs := db.ctx[n]
		fmt.Printf("%s (rule %s) syms=%v\n   prefixes(%v)=%v\n   last=%v parents=%v bad=%q\n", n, cs.rule, cs.syms, cs.preOK, cs.pre, cs.suf, db.parents[n], db.bad[n])
	}
	return 0
}
