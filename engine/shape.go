package main

import "golang.org/x/tools/go/ssa"

// shapeDB: grammar-shape contracts (filled in by the shape generator)
type shapeDB struct{}

func (s *shapeDB) call(e *enc, x *ssa.Call, recvType, method string, args []Term) bool { return false }
