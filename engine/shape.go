package main

import (
	"fmt"
	"go/types"
	"path/filepath"
	"sort"
	"strings"
	"unicode"

	"golang.org/x/tools/go/ssa"
)

// Grammar-shape contracts. For an error-free parse tree (assumption), the children of a node whose context type is K
// match the regular expression of K's alternative(s) in the .g4 text. From that expression the generator derives, per
// node term used in a function:
//   - linear constraints on the number of children of each kind (cnt), hence which accessors return nil;
//   - the possible kinds of the first three children and of the last child;
//   - the possible kinds of the parent.
// The semantics of the generated accessors (first / i-th / all children of a kind) and of the runtime's tree methods
// are assumed (trusted base: ANTLR Go runtime and code generator).

type shapeSet struct {
	w   *World
	dbs map[string]*shapeDB // generated parser package path -> shapes (nil entry = no grammar text)
}

const terminalKind = "TerminalNodeImpl"

func (w *World) shapeSet() *shapeSet {
	if w.shapes == nil {
		w.shapes = &shapeSet{w: w, dbs: map[string]*shapeDB{}}
	}
	return w.shapes
}

func (s *shapeSet) forPkg(path string) *shapeDB {
	if db, ok := s.dbs[path]; ok {
		return db
	}
	s.dbs[path] = nil
	if !strings.HasPrefix(path, modPath+"/languages/") {
		return nil
	}
	dir := filepath.Join(repoDir, strings.TrimPrefix(path, modPath+"/"))
	db, err := loadShapes(path, dir)
	if err != nil {
		s.w.shapeNotes = append(s.w.shapeNotes, fmt.Sprintf("no grammar shapes for %s: %v", path, err))
		return nil
	}
	if p := s.w.ByPath[path]; p != nil && p.Types != nil {
		db.crossCheck(p.Types)
	}
	// entry points: rules the repository invokes on the parser object
	for _, fn := range s.w.allRepoFuncs() {
		for _, b := range fn.Blocks {
			for _, in := range b.Instrs {
				c, ok := in.(*ssa.Call)
				if !ok {
					continue
				}
				cal := c.Common().StaticCallee()
				if cal == nil || cal.Pkg == nil || cal.Pkg.Pkg.Path() != path || cal.Signature.Recv() == nil {
					continue
				}
				if !strings.HasSuffix(nodeTypeName(cal.Signature.Recv().Type()), "Parser") {
					continue
				}
				rn := strings.ToLower(cal.Name()[:1]) + cal.Name()[1:]
				if _, ok := db.g.rules[rn]; ok && (fn.Pkg == nil || fn.Pkg.Pkg.Path() != path) {
					db.start[rn] = true
				}
			}
		}
	}
	s.dbs[path] = db
	return db
}

// crossCheck: the accessor methods the generated code declares on each context type must be the ones the grammar text
// implies; a context type for which they differ gets no shape facts (the .g4 is then not the source of the generated code).
func (db *shapeDB) crossCheck(pkg *types.Package) {
	sc := pkg.Scope()
	for name, cs := range db.ctx {
		tn, ok := sc.Lookup(name).(*types.TypeName)
		if !ok {
			db.bad[name] = "no such type in the generated package"
			continue
		}
		ms := types.NewMethodSet(types.NewPointer(tn.Type()))
		have := map[string]bool{}
		for i := 0; i < ms.Len(); i++ {
			f := ms.At(i).Obj().(*types.Func)
			if f.Pkg() != pkg {
				continue
			}
			sig := f.Type().(*types.Signature)
			if sig.Results().Len() != 1 {
				continue
			}
			rs := sig.Results().At(0).Type().String()
			if strings.HasSuffix(rs, "antlr.TerminalNode") || strings.HasSuffix(rs, "v4.TerminalNode") || (strings.Contains(rs, pkg.Path()+".I") && strings.HasSuffix(rs, "Context")) {
				if strings.HasPrefix(f.Name(), "Get") { // label getters
					continue
				}
				have[strings.TrimPrefix(f.Name(), "All")] = true
			}
		}
		want := map[string]bool{}
		for _, s := range cs.syms {
			if s == "ANY" || strings.HasPrefix(s, "LIT:") || s == "EOF" {
				if s == "EOF" {
					want["EOF"] = true
				}
				continue
			}
			want[capFirst(s)] = true
		}
		var diff []string
		for k := range want {
			if !have[k] {
				diff = append(diff, "-"+k)
			}
		}
		for k := range have {
			if !want[k] {
				diff = append(diff, "+"+k)
			}
		}
		if len(diff) > 0 {
			sort.Strings(diff)
			db.bad[name] = "accessors differ from the grammar text: " + strings.Join(diff, " ")
		}
	}
}

// ---------- encoder side

func (e *enc) symTag(s string) int {
	if e.syms == nil {
		e.syms = map[string]int{}
	}
	if n, ok := e.syms[s]; ok {
		return n
	}
	n := len(e.syms) + 1
	e.syms[s] = n
	return n
}

func (e *enc) fKind() string   { return e.uf("kind", []string{"Int"}, "Int") }
func (e *enc) fNchild() string { return e.uf("nchild", []string{"Int"}, "Int") }
func (e *enc) fChild() string  { return e.uf("child", []string{"Int", "Int"}, "Int") }
func (e *enc) fParent() string { return e.uf("parentOf", []string{"Int"}, "Int") }
func (e *enc) fCnt() string    { return e.uf("cnt", []string{"Int", "Int"}, "Int") }
func (e *enc) fNth() string    { return e.uf("nth", []string{"Int", "Int", "Int"}, "Int") }
func (e *enc) fTokType() string { return e.uf("toktype", []string{"Int"}, "Int") }
func (e *enc) fAux() string    { return e.uf("shapeaux", []string{"Int", "Int"}, "Int") }

// candKinds: the context types a node value may have, from its static Go type or from where it was obtained
func (e *enc) candKinds(v ssa.Value, t Term) (*shapeDB, []string) {
	ty := v.Type()
	if p, ok := ty.(*types.Pointer); ok {
		ty = p.Elem()
	}
	if n, ok := ty.(*types.Named); ok && n.Obj().Pkg() != nil {
		if db := e.w.shapeSet().forPkg(n.Obj().Pkg().Path()); db != nil {
			name := n.Obj().Name()
			if _, isStruct := n.Underlying().(*types.Struct); isStruct {
				if _, ok := db.ctx[name]; ok {
					// the dynamic type of a non-nil *XContext is XContext
					e.once("shape#static#"+name+"#"+t, func() {
						e.assume(fmt.Sprintf("(=> (not (= %s 0)) (= (%s %s) %d))", t, e.fKind(), t, e.kindTag(name)))
					})
					e.setCand(t, db, []string{name})
					return db, []string{name}
				}
			} else if strings.HasPrefix(name, "I") && strings.HasSuffix(name, "Context") {
				rule := strings.TrimSuffix(name[1:], "Context")
				rule = strings.ToLower(rule[:1]) + rule[1:]
				if ks, ok := db.kinds[rule]; ok {
					if c, ok := e.nodeCand[t]; ok && len(c.kinds) < len(ks) {
						return c.db, c.kinds
					}
					e.setCand(t, db, ks)
					return db, ks
				}
			}
		}
	}
	if c, ok := e.nodeCand[t]; ok {
		return c.db, c.kinds
	}
	return nil, nil
}

type nodeCand struct {
	db    *shapeDB
	kinds []string
}

func (e *enc) setCand(t Term, db *shapeDB, kinds []string) {
	if e.nodeCand == nil {
		e.nodeCand = map[Term]nodeCand{}
	}
	e.nodeCand[t] = nodeCand{db, kinds}
}

// symMatch: node c is a child produced by grammar symbol s
func (e *enc) symMatch(db *shapeDB, c Term, s string) Term {
	if s == "ANY" || strings.HasPrefix(s, "LIT:") {
		return fmt.Sprintf("(= (%s %s) %d)", e.fKind(), c, e.kindTag(terminalKind))
	}
	if unicode.IsUpper(rune(s[0])) {
		return fmt.Sprintf("(and (= (%s %s) %d) (= (%s %s) %d))", e.fKind(), c, e.kindTag(terminalKind), e.fTokType(), c, e.symTag(s))
	}
	var ds []string
	for _, k := range db.kinds[s] {
		ds = append(ds, fmt.Sprintf("(= (%s %s) %d)", e.fKind(), c, e.kindTag(k)))
	}
	if len(ds) == 0 {
		return "true"
	}
	if len(ds) == 1 {
		return ds[0]
	}
	return "(or " + strings.Join(ds, " ") + ")"
}

// countFacts: linear constraints on the numbers of children of node n, were it of context type K
func (e *enc) countFacts(db *shapeDB, cs *ctxShape, n Term) Term {
	sums := map[string][]string{}
	var cons []string
	var walk func(g *gNode, mult string)
	aux := func(g *gNode, slot int) string {
		if slot >= 128 {
			panic("grammar alternative with more than 128 branches")
		}
		return fmt.Sprintf("(%s %s %d)", e.fAux(), n, g.id*128+slot+e.symTag("aux:"+db.pkgPath)*100000000)
	}
	walk = func(g *gNode, mult string) {
		if g.never {
			cons = append(cons, fmt.Sprintf("(= %s 0)", mult))
		}
		switch g.kind {
		case "sym":
			sums[g.sym] = append(sums[g.sym], mult)
		case "seq":
			for _, k := range g.kids {
				walk(k, mult)
			}
		case "opt":
			m := aux(g, 0)
			cons = append(cons, fmt.Sprintf("(<= 0 %s)", m), fmt.Sprintf("(<= %s %s)", m, mult))
			walk(g.kids[0], m)
		case "star":
			m := aux(g, 0)
			cons = append(cons, fmt.Sprintf("(<= 0 %s)", m), fmt.Sprintf("(=> (= %s 0) (= %s 0))", mult, m))
			walk(g.kids[0], m)
		case "plus":
			m := aux(g, 0)
			cons = append(cons, fmt.Sprintf("(<= %s %s)", mult, m), fmt.Sprintf("(=> (= %s 0) (= %s 0))", mult, m))
			walk(g.kids[0], m)
		case "alt":
			var ms []string
			for i, k := range g.kids {
				m := aux(g, i)
				ms = append(ms, m)
				cons = append(cons, fmt.Sprintf("(<= 0 %s)", m))
				walk(k, m)
			}
			cons = append(cons, fmt.Sprintf("(= (+ %s 0) %s)", strings.Join(ms, " "), mult))
		}
	}
	walk(cs.body, "1")
	var all []string
	for _, s := range cs.syms {
		sum := "(+ " + strings.Join(sums[s], " ") + " 0)"
		cons = append(cons, fmt.Sprintf("(= (%s %s %d) %s)", e.fCnt(), n, e.symTag(s), sum))
		all = append(all, sums[s]...)
	}
	cons = append(cons, fmt.Sprintf("(= (%s %s) (+ %s 0))", e.fNchild(), n, strings.Join(all, " ")))
	return "(and " + strings.Join(cons, " ") + ")"
}

// prefixFacts: kinds of the first three children and of the last child
func (e *enc) prefixFacts(db *shapeDB, cs *ctxShape, n Term) Term {
	var parts []string
	if cs.preOK && len(cs.pre) > 0 {
		var ws []string
		for _, w := range cs.pre {
			var cj []string
			if len(w) < 3 {
				cj = append(cj, fmt.Sprintf("(= (%s %s) %d)", e.fNchild(), n, len(w)))
			} else {
				cj = append(cj, fmt.Sprintf("(>= (%s %s) 3)", e.fNchild(), n))
			}
			for i, s := range w {
				cj = append(cj, e.symMatch(db, fmt.Sprintf("(%s %s %d)", e.fChild(), n, i), s))
			}
			ws = append(ws, "(and "+strings.Join(cj, " ")+")")
		}
		parts = append(parts, "(or "+strings.Join(ws, " ")+")")
	}
	if len(cs.suf) > 0 {
		var ws []string
		for _, w := range cs.suf {
			if len(w) == 0 {
				ws = append(ws, fmt.Sprintf("(= (%s %s) 0)", e.fNchild(), n))
			} else {
				ws = append(ws, e.symMatch(db, fmt.Sprintf("(%s %s (- (%s %s) 1))", e.fChild(), n, e.fNchild(), n), w[0]))
			}
		}
		parts = append(parts, "(or "+strings.Join(ws, " ")+")")
	}
	// kinds possible at positions other than the last / the first
	pos := func(syms []string, lo, hi string) {
		var ms []string
		c := fmt.Sprintf("(%s %s i)", e.fChild(), n)
		for _, s := range syms {
			ms = append(ms, e.symMatch(db, c, s))
		}
		body := "false"
		if len(ms) > 0 {
			body = "(or " + strings.Join(ms, " ") + " false)"
		}
		parts = append(parts, fmt.Sprintf("(forall ((i Int)) (! (=> (and (<= %s i) (< i %s)) %s) :pattern (%s)))", lo, hi, body, c))
	}
	pos(cs.nonLast, "0", fmt.Sprintf("(- (%s %s) 1)", e.fNchild(), n))
	pos(cs.nonFirst, "1", fmt.Sprintf("(%s %s)", e.fNchild(), n))
	if len(parts) == 0 {
		return "true"
	}
	return "(and " + strings.Join(parts, " ") + ")"
}

// nodeFacts: everything known about the children of node term n, for each context type it may have (once per term)
func (e *enc) nodeFacts(db *shapeDB, kinds []string, n Term, withPrefix bool) {
	if db == nil {
		return
	}
	for _, k := range kinds {
		cs := db.ctx[k]
		if cs == nil || db.bad[k] != "" {
			if db.bad[k] != "" {
				e.w.noteOnce("shape facts withheld for " + k + ": " + db.bad[k])
			}
			continue
		}
		guard := fmt.Sprintf("(= (%s %s) %d)", e.fKind(), n, e.kindTag(k))
		e.once("shape#cnt#"+k+"#"+n, func() {
			for _, p := range db.pruned {
				e.assumps["grammar branch the parser never produces (shadowed by an earlier alternative under ANTLR's lowest-alternative rule): "+p] = true
			}
			e.assumps["parse trees are error-free: the children of every rule context match the alternative of its grammar rule ("+filepath.Base(db.pkgPath)+" grammar text cross-checked against the generated accessors)"] = true
			e.assume(fmt.Sprintf("(=> (and (not (= %s 0)) %s) %s)", n, guard, e.countFacts(db, cs, n)))
		})
		if withPrefix {
			e.once("shape#pre#"+k+"#"+n, func() {
				e.assume(fmt.Sprintf("(=> (and (not (= %s 0)) %s) %s)", n, guard, e.prefixFacts(db, cs, n)))
			})
		}
	}
	e.termFacts(n)
}

// termFacts: a terminal node has no children
func (e *enc) termFacts(n Term) {
	e.once("shape#term#"+n, func() {
		e.assume(fmt.Sprintf("(=> (= (%s %s) %d) (= (%s %s) 0))", e.fKind(), n, e.kindTag(terminalKind), e.fNchild(), n))
		e.assume(fmt.Sprintf("(>= (%s %s) 0)", e.fNchild(), n))
	})
}

func (e *enc) kindIn(n Term, kinds []string) Term {
	var ds []string
	for _, k := range kinds {
		ds = append(ds, fmt.Sprintf("(= (%s %s) %d)", e.fKind(), n, e.kindTag(k)))
	}
	if len(ds) == 0 {
		return "true"
	}
	if len(ds) == 1 {
		return ds[0]
	}
	return "(or " + strings.Join(ds, " ") + ")"
}


// call: a method of a generated context type or of the runtime's tree interfaces on receiver args[0]
func (s *shapeSet) call(e *enc, x *ssa.Call, recvType, method string, args []Term) bool {
	if len(args) == 0 {
		return false
	}
	c := x.Common()
	var recvVal ssa.Value
	if c.IsInvoke() {
		recvVal = c.Value
	} else if len(c.Args) > 0 {
		recvVal = c.Args[0]
	}
	if recvVal == nil {
		return false
	}
	n := args[0]
	db, kinds := e.candKinds(recvVal, n)
	sig := c.Signature()
	if sig.Results().Len() != 1 {
		return false
	}
	rty := sig.Results().At(0).Type()
	switch method {
	case "GetChildCount":
		e.nodeFacts(db, kinds, n, true)
		e.termFacts(n)
		e.fr.val[x] = e.define("nchild", "Int", fmt.Sprintf("(%s %s)", e.fNchild(), n))
		return true
	case "GetChild":
		if len(args) != 2 {
			return false
		}
		e.nodeFacts(db, kinds, n, true)
		e.termFacts(n)
		r := e.define("child", "Int", fmt.Sprintf("(%s %s %s)", e.fChild(), n, args[1]))
		e.assumps["antlr runtime: GetChild(i) is the i-th child, nil when i is out of range; a child's parent is the node"] = true
		e.assume(fmt.Sprintf("(= (= %s 0) (not (and (<= 0 %s) (< %s (%s %s)))))", r, args[1], args[1], e.fNchild(), n))
		e.assume(fmt.Sprintf("(=> (not (= %s 0)) (= (%s %s) %s))", r, e.fParent(), r, n))
		// kinds of any child: the symbols of the parent's alternatives
		if db != nil && len(kinds) > 0 && len(kinds) <= 12 {
			var ck []string
			seen := map[string]bool{}
			var per []string
			for _, k := range kinds {
				cs := db.ctx[k]
				if cs == nil || db.bad[k] != "" {
					per = nil
					ck = nil
					break
				}
				var ms []string
				for _, sname := range cs.syms {
					ms = append(ms, e.symMatch(db, r, sname))
					if unicode.IsLower(rune(sname[0])) {
						for _, kk := range db.kinds[sname] {
							if !seen[kk] {
								seen[kk] = true
								ck = append(ck, kk)
							}
						}
					}
				}
				if len(ms) == 0 {
					ms = []string{"false"}
				}
				per = append(per, fmt.Sprintf("(=> (= (%s %s) %d) (or %s false))", e.fKind(), n, e.kindTag(k), strings.Join(ms, " ")))
			}
			for _, p := range per {
				e.assume(fmt.Sprintf("(=> (not (= %s 0)) %s)", r, p))
			}
			if len(ck) > 0 && len(ck) <= 60 {
				e.setCand(r, db, ck)
			}
		}
		e.fr.val[x] = r
		return true
	case "GetText":
		if len(args) != 1 {
			return false
		}
		f := e.uf("nm_GetText_Int_0", []string{"Int"}, "String")
		r := e.define("text", "String", fmt.Sprintf("(%s %s)", f, n))
		// the text of a node is the concatenation of its tokens: non-empty unless its rule can match nothing
		nonEmpty := false
		if db != nil && len(kinds) > 0 {
			nonEmpty = true
			for _, k := range kinds {
				if cs := db.ctx[k]; cs == nil || db.nullable[cs.rule] {
					nonEmpty = false
				}
			}
		}
		// at least one character per token: the text is at least as long as the least number of tokens of the children
		if db != nil && len(kinds) > 0 && len(kinds) <= 4 {
			e.nodeFacts(db, kinds, n, false)
			for _, k := range kinds {
				cs := db.ctx[k]
				if cs == nil || db.bad[k] != "" {
					continue
				}
				var terms []string
				for _, sname := range cs.syms {
					w := 1
					if unicode.IsLower(rune(sname[0])) {
						w = db.minTok[sname]
						if w >= 1<<20 {
							w = 0
						}
					} else if sname == "EOF" {
						w = 0
					}
					if w > 0 {
						terms = append(terms, fmt.Sprintf("(* %d (%s %s %d))", w, e.fCnt(), n, e.symTag(sname)))
					}
				}
				if len(terms) > 0 {
					e.assumps["every token has at least one character: the text of a node is at least as long as the number of tokens below it"] = true
					e.assume(fmt.Sprintf("(=> (and (not (= %s 0)) (= (%s %s) %d)) (>= (str.len %s) (+ %s 0)))", n, e.fKind(), n, e.kindTag(k), r, strings.Join(terms, " ")))
				}
			}
		}
		if nonEmpty {
			e.assumps["antlr runtime: GetText() of a rule context is the concatenation of its tokens' text (non-empty when the rule cannot match nothing; no token of these grammars has empty text)"] = true
			e.assume(fmt.Sprintf("(=> (not (= %s 0)) (> (str.len %s) 0))", n, r))
		}
		e.fr.val[x] = r
		return true
	case "GetChildren":
		if len(args) != 1 {
			return false
		}
		rs := e.so.of(rty)
		if !strings.HasPrefix(rs, "Slice_") {
			return false
		}
		e.nodeFacts(db, kinds, n, true)
		e.termFacts(n)
		r := e.fresh("children", rs)
		e.assume(fmt.Sprintf("(and (= (len_%[1]s %[2]s) (%[3]s %[4]s)) (forall ((i Int)) (! (=> (and (<= 0 i) (< i (%[3]s %[4]s))) (and (= (select (arr_%[1]s %[2]s) i) (%[5]s %[4]s i)) (not (= (select (arr_%[1]s %[2]s) i) 0)))) :pattern ((select (arr_%[1]s %[2]s) i)))))", rs, r, e.fNchild(), n, e.fChild()))
		e.fr.val[x] = r
		return true
	case "GetStart", "GetStop", "GetSymbol":
		if len(args) != 1 {
			return false
		}
		f := e.uf("nm_"+method+"_Int_0", []string{"Int"}, "Int")
		r := e.define("tok", "Int", fmt.Sprintf("(%s %s)", f, n))
		e.assumps["antlr runtime: a rule context of an error-free tree has a start token; it has a stop token unless its rule can match nothing; a terminal node has a symbol"] = true
		nonnil := method != "GetStop"
		if method == "GetStop" && db != nil && len(kinds) > 0 {
			nonnil = true
			for _, k := range kinds {
				if cs := db.ctx[k]; cs == nil || db.nullable[cs.rule] {
					nonnil = false
				}
			}
		}
		if nonnil {
			e.assume(fmt.Sprintf("(=> (not (= %s 0)) (not (= %s 0)))", n, r))
		}
		e.fr.val[x] = r
		return true
	case "GetParent":
		r := e.define("parent", "Int", fmt.Sprintf("(%s %s)", e.fParent(), n))
		if db != nil {
			var pk []string
			seen := map[string]bool{}
			for _, k := range kinds {
				cs := db.ctx[k]
				if cs == nil {
					continue
				}
				ps := db.parents[k]
				e.assumps["parse trees are rooted at the grammar's start rule: every other rule context has a parent"] = true
				cond := e.kindIn(r, ps)
				if len(ps) == 0 {
					cond = "true"
				}
				if db.isStart(cs.rule) {
					e.assume(fmt.Sprintf("(=> (and (not (= %s 0)) (= (%s %s) %d) (not (= %s 0))) %s)", n, e.fKind(), n, e.kindTag(k), r, cond))
				} else {
					e.assume(fmt.Sprintf("(=> (and (not (= %s 0)) (= (%s %s) %d)) (and (not (= %s 0)) %s))", n, e.fKind(), n, e.kindTag(k), r, cond))
				}
				for _, p := range ps {
					if !seen[p] {
						seen[p] = true
						pk = append(pk, p)
					}
				}
			}
			if len(pk) > 0 && len(pk) <= 60 {
				e.setCand(r, db, pk)
			}
		}
		e.fr.val[x] = r
		return true
	}
	if db == nil || len(kinds) == 0 {
		return false
	}
	// generated accessors: Y(), Y(i), AllY(), TOKEN(), TOKEN(i), AllTOKEN()
	all := strings.HasPrefix(method, "All")
	base := strings.TrimPrefix(method, "All")
	sym := ""
	for _, k := range kinds {
		cs := db.ctx[k]
		if cs == nil {
			continue
		}
		for _, sname := range cs.syms {
			if capFirst(sname) == base {
				sym = sname
			}
		}
	}
	if sym == "" {
		return false
	}
	for _, k := range kinds {
		if db.bad[k] != "" {
			e.w.noteOnce("shape facts withheld for " + k + ": " + db.bad[k])
			return false
		}
	}
	isTok := unicode.IsUpper(rune(sym[0]))
	rs := e.so.of(rty)
	e.nodeFacts(db, kinds, n, false)
	e.assumps["generated accessors: X() is the first child of kind X or nil, X(i) the i-th or nil, AllX() all of them in order"] = true
	sid := e.symTag(sym)
	cnt := fmt.Sprintf("(%s %s %d)", e.fCnt(), n, sid)
	childFacts := func(r Term) Term {
		if isTok {
			return fmt.Sprintf("(and (= (%s %s) %s) %s)", e.fParent(), r, n, e.symMatch(db, r, sym))
		}
		return fmt.Sprintf("(and (= (%s %s) %s) %s)", e.fParent(), r, n, e.kindIn(r, db.kinds[sym]))
	}
	switch {
	case all && strings.HasPrefix(rs, "Slice_"):
		r := e.fresh("all_"+base, rs)
		e.assume(fmt.Sprintf("(and (= (len_%[1]s %[2]s) %[3]s) (>= %[3]s 0) (not (nil_%[1]s %[2]s)))", rs, r, cnt))
		el := fmt.Sprintf("(select (arr_%s %s) i)", rs, r)
		e.assume(fmt.Sprintf("(forall ((i Int)) (! (=> (and (<= 0 i) (< i %s)) (and (not (= %s 0)) (= %s (%s %s %d i)) %s)) :pattern (%s)))", cnt, el, el, e.fNth(), n, sid, childFacts(el), el))
		e.fr.val[x] = r
		return true
	case !all && rs == "Int" && len(args) == 1:
		r := e.define("acc_"+base, "Int", fmt.Sprintf("(%s %s %d 0)", e.fNth(), n, sid))
		e.assume(fmt.Sprintf("(= (= %s 0) (< %s 1))", r, cnt))
		e.assume(fmt.Sprintf("(=> (not (= %s 0)) %s)", r, childFacts(r)))
		if !isTok {
			e.setCand(r, db, db.kinds[sym])
		}
		e.fr.val[x] = r
		return true
	case !all && rs == "Int" && len(args) == 2:
		r := e.define("acc_"+base, "Int", fmt.Sprintf("(%s %s %d %s)", e.fNth(), n, sid, args[1]))
		e.assume(fmt.Sprintf("(= (= %s 0) (not (and (<= 0 %s) (< %s %s))))", r, args[1], args[1], cnt))
		e.assume(fmt.Sprintf("(=> (not (= %s 0)) %s)", r, childFacts(r)))
		if !isTok {
			e.setCand(r, db, db.kinds[sym])
		}
		e.fr.val[x] = r
		return true
	}
	return false
}

// typeNameOf: reflect.TypeOf(v).String() for a tree node v: "*parser.XContext" / "*antlr.TerminalNodeImpl"
func (e *enc) typeNameOf(v Term) Term {
	f := e.uf("TypeNameF", []string{"Int"}, "String")
	g := e.uf("TagOfNameF", []string{"String"}, "Int")
	e.once("typename#ax", func() {
		e.decls = append(e.decls, fmt.Sprintf("(assert (forall ((k Int)) (! (= (%s (%s k)) k) :pattern ((%s k)))))", g, f, f))
		e.assumps["reflect.TypeOf(node).String() is \"*parser.<ContextType>\" (\"*antlr.TerminalNodeImpl\" for tokens); distinct types have distinct names"] = true
	})
	var names []string
	for _, db := range e.w.shapeSet().dbs {
		if db == nil {
			continue
		}
		for n := range db.ctx {
			names = append(names, n)
		}
	}
	sort.Strings(names)
	for _, n := range uniq(names) {
		n := n
		e.once("typename#"+n, func() {
			e.decls = append(e.decls, fmt.Sprintf("(assert (= (%s %d) \"*parser.%s\"))", f, e.kindTag(n), n))
		})
	}
	e.once("typename#terminal", func() {
		e.decls = append(e.decls, fmt.Sprintf("(assert (= (%s %d) \"*antlr.TerminalNodeImpl\"))", f, e.kindTag(terminalKind)))
	})
	return fmt.Sprintf("(%s (%s %s))", f, e.fKind(), v)
}

func (db *shapeDB) isStart(rule string) bool {
	if len(db.start) == 0 {
		// without usage information: rules no other rule refers to
		for _, ks := range db.kinds[rule] {
			if len(db.parents[ks]) > 0 {
				return false
			}
		}
		return true
	}
	return db.start[rule]
}

func (w *World) noteOnce(s string) {
	for _, x := range w.shapeNotes {
		if x == s {
			return
		}
	}
	w.shapeNotes = append(w.shapeNotes, s)
}
