package main

import (
	"fmt"

	"golang.org/x/tools/go/ssa"
)

func resetObligations(w *World, ss *SpecSet, rc ResetCfg) (*FuncResult, error) {
	return nil, fmt.Errorf("reset generator not built yet")
}

func commuteObligations(w *World, ss *SpecSet, fn *ssa.Function) []*FuncResult { return nil }
