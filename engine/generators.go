package main

import (
	"fmt"
	"go/token"
	"go/types"
	"regexp"
	"sort"
	"strings"

	"golang.org/x/tools/go/ssa"
)

// ---------- frame / reset obligations (C07, C12)
//
// For a pass whose per-file state lives in package-level variables: every variable that a listener method reads and that
// anything in the package writes must, after the per-file constructor(s) have run, hold a value that does not depend on
// the state left behind by earlier files. The obligation `reset.<var>` is decided on the generated encoding of the real
// constructor: the symbolic post-value of the variable must not depend (through the definitions of the encoding) on any
// symbol of the initial memory. This is a sufficient condition for the relational statement "two runs from different
// pre-states with equal arguments end with equal values".

var identRe = regexp.MustCompile(`[A-Za-z_][A-Za-z0-9_.!]*`)

func resetObligations(w *World, ss *SpecSet, rc ResetCfg) (*FuncResult, error) {
	var ctors []*ssa.Function
	for _, n := range strings.Split(rc.Constructor, ",") {
		fn, err := w.find(strings.TrimSpace(n))
		if err != nil {
			return nil, err
		}
		ctors = append(ctors, fn)
	}
	pkg := ctors[0].Pkg
	// listener methods: pkgname.Type
	parts := strings.SplitN(rc.Listener, ".", 2)
	if len(parts) != 2 {
		return nil, fmt.Errorf("reset: listener must be pkgname.Type, got %q", rc.Listener)
	}
	var methods []*ssa.Function
	for key, fn := range w.Funcs {
		if fn.Pkg != nil && fn.Pkg.Pkg.Name() == parts[0] && strings.Contains(key, "."+parts[1]+".") && fn.Pkg == pkg {
			methods = append(methods, fn)
		}
	}
	if len(methods) == 0 {
		return nil, fmt.Errorf("reset: no methods found for %s", rc.Listener)
	}
	reads := map[*ssa.Global]bool{}
	for _, m := range methods {
		for g := range w.frameOf(m).reads {
			if g.Pkg == pkg {
				reads[g] = true
			}
		}
	}
	writes := map[*ssa.Global]bool{}
	for _, fn := range w.allRepoFuncs() {
		if fn.Pkg != pkg || fn.Name() == "init" {
			continue
		}
		for g := range w.frameOf(fn).writes {
			if g.Pkg == pkg {
				writes[g] = true
			}
		}
	}
	var S []*ssa.Global
	for g := range reads {
		if writes[g] {
			S = append(S, g)
		}
	}
	sort.Slice(S, func(i, j int) bool { return S[i].Name() < S[j].Name() })

	res := &FuncResult{Name: "reset:" + fnFull(ctors[0]), Fn: ctors[0]}
	// encode every constructor once; record, per variable, what its post-value depends on
	type ctorRun struct {
		fn   *ssa.Function
		enc  *enc
		post map[string]Term
		deps map[string]map[string]bool
	}
	var runs []ctorRun
	for _, c := range ctors {
		e := newEnc(w, ss, c)
		e.sweep = false
		e.noConst = false
		fr := newFrame(c, nil)
		e.fr = fr
		fr.cur = "true"
		e.stack = []*ssa.Function{c}
		for _, p := range c.Params {
			e.value(p)
		}
		fr.entryMem = map[string]Term{}
		e.initMem = fr.entryMem
		for _, g := range S {
			e.ensureGlobal(g)
		}
		func() {
			defer func() {
				if r := recover(); r != nil {
					res.Errors = append(res.Errors, fmt.Sprintf("ENGINE-ERROR in %s: %v", fnFull(c), r))
				}
			}()
			e.run(fr, "true")
		}()
		post := map[string]Term{}
		if len(fr.returns) > 0 {
			var ats []Term
			var mems []map[string]Term
			for _, r := range fr.returns {
				ats = append(ats, r.at)
				mems = append(mems, r.mem)
			}
			e.fr = fr
			m := e.mergeMem(mems, ats)
			for _, g := range S {
				post[g.Name()] = m[e.globalKey(g)]
			}
		}
		// definition graph of the encoding
		defOf := map[string][]string{}
		for _, d := range e.defs {
			if strings.HasPrefix(d, "(= ") {
				rest := d[3:]
				name := rest
				if i := strings.IndexAny(rest, " )"); i > 0 {
					name = rest[:i]
				}
				defOf[name] = append(defOf[name], rest[len(name):])
			}
		}
		deps := map[string]map[string]bool{}
		for _, g := range S {
			seen := map[string]bool{}
			var walk func(t string)
			walk = func(t string) {
				for _, id := range identRe.FindAllString(t, -1) {
					if seen[id] {
						continue
					}
					seen[id] = true
					for _, body := range defOf[id] {
						walk(body)
					}
				}
			}
			walk(post[g.Name()])
			init := map[string]bool{}
			for id := range seen {
				if strings.HasPrefix(id, "g0_") || strings.HasPrefix(id, "heap0_") || strings.HasPrefix(id, "hv_") || strings.HasPrefix(id, "hvl_") {
					init[id] = true
				}
			}
			deps[g.Name()] = init
		}
		runs = append(runs, ctorRun{c, e, post, deps})
		res.Notes = append(res.Notes, e.notes...)
	}
	enc0 := runs[0].enc
	res.Enc = enc0
	for _, g := range S {
		ok := false
		var why []string
		for _, r := range runs {
			d := r.deps[g.Name()]
			if r.post[g.Name()] != "" && len(d) == 0 {
				ok = true
			} else {
				var ds []string
				for k := range d {
					ds = append(ds, k)
				}
				sort.Strings(ds)
				if len(ds) > 4 {
					ds = append(ds[:4], "…")
				}
				why = append(why, fmt.Sprintf("after %s its value depends on the previous state (%s)", fnFull(r.fn), strings.Join(ds, ", ")))
			}
		}
		goal := "true"
		text := fmt.Sprintf("package-level variable %s (read by %s, written in the package) is re-initialised independently of earlier files", g.Name(), rc.Listener)
		if reason, exempt := rc.StaleOK[g.Name()]; exempt {
			enc0.assumps["stale-ok "+g.Pkg.Pkg.Name()+"."+g.Name()+": "+reason] = true
			continue
		}
		if !ok {
			goal = "false"
			text += ": " + strings.Join(why, "; ")
		}
		o := &Obligation{Name: fmt.Sprintf("%s/reset.%s", fnFull(ctors[0]), g.Name()), Class: "reset", Fn: fnFull(ctors[0]), Goal: goal, At: "true", Text: text}
		o.Pos = w.Prog.Fset.Position(ctors[0].Pos())
		enc0.obls = append(enc0.obls, o)
		res.Obls = append(res.Obls, o)
	}
	return res, nil
}

// ---------- map-order commutation obligations (C08)
//
// For every `range` over a map in the function: the body executed for two distinct keys in either order must give the
// same state, up to the abstraction declared for that loop (default: maps and scalars equal, slices that are only
// appended to equal as multisets). Decided here by a dependency argument over the real SSA: the body is order
// insensitive if every location it writes is (a) a map cell indexed by the range key itself, (b) a commutative
// accumulation (x += e, x = x || e, x = x && e, append-only slice read back only as a collection), or (c) loop-local;
// and it reads no location that another iteration writes non-commutatively. Anything else is reported.

var outputOrderOK map[string]string

type commuteFinding struct {
	pos  token.Pos
	what string
}

func commuteObligations(w *World, ss *SpecSet, fn *ssa.Function) []*FuncResult {
	// 1. the real encoding of the function, recording map writes under derived keys inside map ranges
	e := newEnc(w, ss, fn)
	e.sweep = false
	e.recordCommute = true
	res := &FuncResult{Name: "commute:" + fnFull(fn), Fn: fn, Enc: e}
	func() {
		defer func() {
			if r := recover(); r != nil {
				res.Errors = append(res.Errors, fmt.Sprintf("ENGINE-ERROR in %s: %v", fnFull(fn), r))
			}
		}()
		e.translateAxioms()
		fr := newFrame(fn, nil)
		e.fr = fr
		fr.cur = "true"
		e.stack = []*ssa.Function{fn}
		for _, p := range fn.Params {
			e.value(p)
		}
		fr.entryMem = map[string]Term{}
		e.initMem = fr.entryMem
		// the function's preconditions hold for the iterations compared
		if ct := w.contractFor(ss, fn); ct != nil {
			fr.contract = ct
			env := e.fnEnv(fr, e.mem)
			env.oldMem = nil
			for _, rq := range ct.Requires {
				g, err := e.specBool(env, rq.E)
				if err != nil {
					e.contractError(fr, "requires: "+err.Error())
					continue
				}
				e.assume(g)
			}
		}
		e.run(fr, "true")
		res.Errors = append(res.Errors, e.cerrs...)
	}()
	e.obls = nil
	declName := regexp.MustCompile(`^\(declare-(?:const|fun) ([^ ]+) `)
	for k, s := range e.commuteSites {
		// second copy of the iteration: every symbol introduced since the start of the iteration is renamed
		names := map[string]bool{}
		for _, d := range e.decls[s.nd0:s.nd1] {
			if m := declName.FindStringSubmatch(d); m != nil {
				names[m[1]] = true
			}
		}
		ren := func(t string) string {
			return identRe.ReplaceAllStringFunc(t, func(id string) string {
				if names[id] {
					return id + "_B"
				}
				return id
			})
		}
		var extra strings.Builder
		for _, d := range e.decls[s.nd0:s.nd1] {
			extra.WriteString(ren(d) + "\n")
		}
		for _, d := range e.defs[s.nf0:s.nf1] {
			extra.WriteString("(assert " + ren(d) + ")\n")
		}
		goal := fmt.Sprintf("(=> (and %s (not (= %s %s)) (= %s %s)) (= %s %s))", ren(s.at), s.rk, ren(s.rk), s.key, ren(s.key), s.val, ren(s.val))
		o := &Obligation{Name: fmt.Sprintf("%s/commute.L%d#%d", fnFull(fn), s.ord, k+1), Class: "commute", Fn: fnFull(fn), Goal: goal, At: s.at,
			NDecl: s.nd1, NDef: s.nf1, Extra: extra.String(),
			Text: "two iterations of the map range that write the same entry (" + s.text + ") write the same value: the result does not depend on the iteration order"}
		o.Pos = w.Prog.Fset.Position(s.pos)
		e.obls = append(e.obls, o)
		res.Obls = append(res.Obls, o)
	}
	// 2. effect analysis of every map range: other writes must be loop-local, keyed by the range key, or accumulations
	fr := newFrame(fn, nil)
	fr.analyzeLoops()
	var heads []*ssa.BasicBlock
	for h := range fr.loopHead {
		heads = append(heads, h)
	}
	sort.Slice(heads, func(i, j int) bool { return fr.loopOrd[heads[i]] < fr.loopOrd[heads[j]] })
	for _, h := range heads {
		var next *ssa.Next
		for _, in := range h.Instrs {
			if nx, ok := in.(*ssa.Next); ok && !nx.IsString {
				if _, isMap := nx.Iter.(*ssa.Range).X.Type().Underlying().(*types.Map); isMap {
					next = nx
				}
			}
		}
		if next == nil {
			continue
		}
		body := fr.loopBlocks(h)
		finds := commuteCheck(w, fn, h, next, body)
		if why, exempt := outputOrderOK[fnFull(fn)]; exempt {
			e.assumps["output order exemption for "+fnFull(fn)+": "+why] = true
		}
		goal, text := "true", fmt.Sprintf("map range (loop %d): every other write is loop-local, keyed by the range key, or a commutative accumulation (append / + / || / idempotent constant)", fr.loopOrd[h])
		if len(finds) > 0 {
			goal = "false"
			var ws []string
			for _, f := range finds {
				ws = append(ws, fmt.Sprintf("%s (line %d)", f.what, w.Prog.Fset.Position(f.pos).Line))
			}
			text = fmt.Sprintf("map range (loop %d) is order sensitive: %s", fr.loopOrd[h], strings.Join(ws, "; "))
		}
		o := &Obligation{Name: fmt.Sprintf("%s/effects.L%d", fnFull(fn), fr.loopOrd[h]), Class: "commute", Fn: fnFull(fn), Goal: goal, At: "true", Text: text}
		o.Pos = w.Prog.Fset.Position(firstPos(h))
		e.obls = append(e.obls, o)
		res.Obls = append(res.Obls, o)
	}
	return []*FuncResult{res}
}

// commuteCheck: syntactic-semantic check of one map-range body (see above)
func commuteCheck(w *World, fn *ssa.Function, h *ssa.BasicBlock, next *ssa.Next, body map[*ssa.BasicBlock]bool) []commuteFinding {
	var finds []commuteFinding
	// the range key / value registers
	var key ssa.Value
	for _, b := range fn.Blocks {
		for _, in := range b.Instrs {
			if ex, ok := in.(*ssa.Extract); ok && ex.Tuple == ssa.Value(next) && ex.Index == 1 {
				key = ex
			}
		}
	}
	isKey := func(v ssa.Value) bool {
		if v == key {
			return true
		}
		// a local copy of the key (the range variable held in a cell)
		if u, ok := v.(*ssa.UnOp); ok && u.Op == token.MUL {
			if a, ok := u.X.(*ssa.Alloc); ok {
				for _, r := range *a.Referrers() {
					if st, ok := r.(*ssa.Store); ok && st.Addr == ssa.Value(a) && st.Val == key {
						return true
					}
				}
			}
		}
		return false
	}
	definedInLoop := func(v ssa.Value) bool {
		in, ok := v.(ssa.Instruction)
		return ok && in.Block() != nil && body[in.Block()]
	}
	for b := range body {
		for _, in := range b.Instrs {
			switch x := in.(type) {
			case *ssa.MapUpdate:
				if definedInLoop(x.Map) {
					if _, ok := x.Map.(*ssa.MakeMap); ok {
						continue
					}
				}
				_ = isKey // entries written under a derived key are covered by the relational commute.L<k> obligations
			case *ssa.Store:
				if a, ok := rootAlloc(x.Addr); ok && definedInLoopAlloc(a, body) {
					continue // loop-local cell
				}
				if isRangeVarStore(x, next) {
					continue // the loop variable itself (one variable per loop before Go 1.22)
				}
				if isAccumulatingStore(x) {
					continue
				}
				if g := rootGlobal(x.Addr, 0); g != nil {
					finds = append(finds, commuteFinding{x.Pos(), "package-level variable " + g.Name() + " assigned inside the map range"})
					continue
				}
				if _, ok := rootAlloc(x.Addr); ok {
					// a cell declared outside the loop: allowed patterns are append / boolean-or / sum accumulations
					if isAccumulatingStore(x) {
						continue
					}
					finds = append(finds, commuteFinding{x.Pos(), "variable declared outside the loop overwritten (last iteration wins)"})
				}
			case *ssa.Call:
				c := x.Common()
				if cal := c.StaticCallee(); cal != nil && inRepo(cal) {
					fi := w.frameOf(cal)
					for g := range fi.writes {
						finds = append(finds, commuteFinding{x.Pos(), "callee " + fnFull(cal) + " writes package-level variable " + g.Name()})
					}
				}
				if cal := c.StaticCallee(); cal != nil && !inRepo(cal) {
					name := cal.String()
					if _, exempt := outputOrderOK[fnFull(fn)]; exempt {
						continue
					}
					if strings.HasPrefix(name, "fmt.Print") || strings.HasPrefix(name, "fmt.Fprint") || strings.Contains(name, "tablewriter") || strings.Contains(name, ".Write") {
						finds = append(finds, commuteFinding{x.Pos(), "output written inside the map range (" + name + "): the order of the emitted text follows the map order"})
					}
				}
			}
		}
	}
	// loop-carried scalars (phis at the header) must be accumulations: append / || / && / + of the previous value
	for _, in := range h.Instrs {
		phi, ok := in.(*ssa.Phi)
		if !ok {
			break
		}
		for i, ed := range phi.Edges {
			p := h.Preds[i]
			if !body[p] {
				continue
			}
			if !accumulates(ed, phi, 0) {
				finds = append(finds, commuteFinding{phi.Pos(), fmt.Sprintf("loop-carried variable %q is overwritten rather than accumulated (last iteration wins)", phi.Comment)})
			} else if _, isSlice := phi.Type().Underlying().(*types.Slice); isSlice {
				// append-only slice: equal as a multiset in any order (the declared abstraction); its element order follows the map order
				_ = isSlice
			}
		}
	}
	sort.Slice(finds, func(i, j int) bool { return finds[i].pos < finds[j].pos })
	return finds
}

func rootAlloc(v ssa.Value) (*ssa.Alloc, bool) {
	for d := 0; d < 12; d++ {
		switch x := v.(type) {
		case *ssa.Alloc:
			return x, true
		case *ssa.FieldAddr:
			v = x.X
		case *ssa.IndexAddr:
			v = x.X
		default:
			return nil, false
		}
	}
	return nil, false
}

func definedInLoopAlloc(a *ssa.Alloc, body map[*ssa.BasicBlock]bool) bool {
	return a.Block() != nil && body[a.Block()]
}

// isRangeVarStore: the value stored is the key or value produced by this range's Next
func isRangeVarStore(st *ssa.Store, next *ssa.Next) bool {
	if ex, ok := st.Val.(*ssa.Extract); ok && ex.Tuple == ssa.Value(next) {
		return true
	}
	return false
}

// sameAddr: two address expressions denote the same location (same root, same field / constant-index path)
func sameAddr(a, b ssa.Value, d int) bool {
	if a == b {
		return true
	}
	if d > 8 {
		return false
	}
	switch x := a.(type) {
	case *ssa.FieldAddr:
		y, ok := b.(*ssa.FieldAddr)
		return ok && x.Field == y.Field && sameAddr(x.X, y.X, d+1)
	case *ssa.UnOp:
		y, ok := b.(*ssa.UnOp)
		return ok && x.Op == token.MUL && y.Op == token.MUL && sameAddr(x.X, y.X, d+1)
	case *ssa.Global:
		return a == b
	}
	return false
}

// isAccumulatingStore: *p = op(*p, e) with op in {append, ||, &&, +}
func isAccumulatingStore(st *ssa.Store) bool {
	return accumulatesFromCell(st.Val, st.Addr, 0)
}

func accumulatesFromCell(v ssa.Value, addr ssa.Value, d int) bool {
	if d > 6 {
		return false
	}
	switch x := v.(type) {
	case *ssa.UnOp:
		return x.Op == token.MUL && sameAddr(x.X, addr, 0)
	case *ssa.Call:
		if b, ok := x.Call.Value.(*ssa.Builtin); ok && b.Name() == "append" {
			return accumulatesFromCell(x.Call.Args[0], addr, d+1)
		}
	case *ssa.BinOp:
		switch x.Op {
		case token.ADD, token.LOR, token.LAND, token.OR, token.AND:
			return accumulatesFromCell(x.X, addr, d+1) || accumulatesFromCell(x.Y, addr, d+1)
		}
	case *ssa.Phi:
		for _, e := range x.Edges {
			if !accumulatesFromCell(e, addr, d+1) {
				return false
			}
		}
		return true
	case *ssa.Const:
		// assigning a constant (e.g. flag = true) is idempotent: commutes with itself
		return true
	}
	return false
}

// accumulates: the back-edge value of a loop-carried phi is built from the phi itself by append / + / || / && (or is the phi)
func accumulates(v ssa.Value, phi *ssa.Phi, d int) bool {
	if d > 8 {
		return false
	}
	if v == ssa.Value(phi) {
		return true
	}
	switch x := v.(type) {
	case *ssa.Call:
		if b, ok := x.Call.Value.(*ssa.Builtin); ok && b.Name() == "append" {
			return accumulates(x.Call.Args[0], phi, d+1)
		}
	case *ssa.BinOp:
		switch x.Op {
		case token.ADD, token.LOR, token.LAND, token.OR, token.AND:
			return accumulates(x.X, phi, d+1) || accumulates(x.Y, phi, d+1)
		}
	case *ssa.Phi:
		for _, e := range x.Edges {
			if e == ssa.Value(x) {
				continue
			}
			if !accumulates(e, phi, d+1) {
				return false
			}
		}
		return true
	case *ssa.Const:
		return constIdempotent(x)
	}
	return false
}

func constIdempotent(c *ssa.Const) bool { return true }
