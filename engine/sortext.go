package main

import (
	"fmt"
	"go/token"
	"go/types"
	"strings"

	"golang.org/x/tools/go/ssa"
)

// sort.Slice(x, less): the slice is permuted in place so that it is sorted with respect to less.
// Contract assumed (sort package): the result is a permutation of the argument (witnessed by an index bijection pi with
// inverse) and for all i < j: !less(j, i). `less` is the real closure, evaluated symbolically as a pure term over the
// new slice contents and two bound indices (straight-line closures only; otherwise only the permutation is stated).

func init() {
	externals["sort.Slice"] = sortSlice
	externals["sort.SliceStable"] = sortSlice
}

func sortSlice(e *enc, x *ssa.Call, args []Term) bool {
	fr := e.fr
	c := x.Common()
	mi, ok := c.Args[0].(*ssa.MakeInterface)
	if !ok {
		return false
	}
	st, ok := mi.X.Type().Underlying().(*types.Slice)
	if !ok {
		return false
	}
	ss := e.so.of(mi.X.Type())
	old := e.value(mi.X)
	e.useSlice(old, ss)
	// where does the slice live? (a variable cell / field): the sorted contents are written back there
	dst, hasDst := fr.prov[mi.X]
	r := e.fresh("sorted", ss)
	e.n++
	pi := fmt.Sprintf("perm_%d", e.n)
	pinv := fmt.Sprintf("perminv_%d", e.n)
	e.uf(pi, []string{"Int"}, "Int")
	e.uf(pinv, []string{"Int"}, "Int")
	e.assumps["sort.Slice contract: in-place permutation (index bijection), sorted with respect to the given less function"] = true
	e.assumeAt(fmt.Sprintf("(and (= (len_%s %s) (len_%s %s)) (= (nil_%s %s) (nil_%s %s)))", ss, r, ss, old, ss, r, ss, old))
	e.assumeAt(fmt.Sprintf("(forall ((k Int)) (! (=> (and (<= 0 k) (< k (len_%s %s))) (and (<= 0 (%s k)) (< (%s k) (len_%s %s)) (= (%s (%s k)) k) (= (select (arr_%s %s) k) (select (arr_%s %s) (%s k))))) :pattern ((select (arr_%s %s) k)) :pattern ((%s k))))",
		ss, r, pi, pi, ss, r, pinv, pi, ss, r, ss, old, pi, ss, r, pi))
	e.assumeAt(fmt.Sprintf("(forall ((k Int)) (! (=> (and (<= 0 k) (< k (len_%s %s))) (and (<= 0 (%s k)) (< (%s k) (len_%s %s)) (= (%s (%s k)) k))) :pattern ((select (arr_%s %s) k)) :pattern ((%s k))))",
		ss, old, pinv, pinv, ss, r, pi, pinv, ss, old, pinv))
	// sortedness through the real closure
	if mc, ok := c.Args[1].(*ssa.MakeClosure); ok {
		fn := mc.Fn.(*ssa.Function)
		free := map[*ssa.FreeVar]Term{}
		okFree := true
		for i, fv := range fn.FreeVars {
			b := mc.Bindings[i]
			// the captured variable is the slice being sorted (its cell): inside less it denotes the new contents
			if l, ok := fr.loc[b]; ok && hasDst && locKey(l) == locKey(dst) {
				free[fv] = r
			} else if l, ok := fr.loc[b]; ok {
				free[fv] = e.read(l)
			} else {
				okFree = false
			}
		}
		if okFree {
			if t, ok := pureClosureTerm(e, fn, []Term{"sj", "si"}, free); ok {
				e.assumeAt(fmt.Sprintf("(forall ((si Int) (sj Int)) (! (=> (and (<= 0 si) (< si sj) (< sj (len_%s %s))) (not %s)) :pattern ((select (arr_%s %s) si) (select (arr_%s %s) sj))))", ss, r, t, ss, r, ss, r))
			} else {
				e.note("sort.Slice: less function of %s not evaluated (only the permutation is assumed)", fnFull(fr.fn))
			}
		}
	}
	if hasDst {
		e.write(dst, r)
		fr.val[mi.X] = r
	} else {
		e.outOfSubset = append(e.outOfSubset, "sort.Slice on a slice value of unknown origin in "+fnFull(fr.fn))
	}
	_ = st
	return true
}

// pureClosureTerm: the result of a single-block closure as an SMT term over its parameters and captured variables
func pureClosureTerm(e *enc, fn *ssa.Function, params []Term, free map[*ssa.FreeVar]Term) (Term, bool) {
	if len(fn.Blocks) != 1 || len(fn.Params) != len(params) {
		return "", false
	}
	val := map[ssa.Value]Term{}
	type ploc struct {
		base Term // the value located
		ty   types.Type
	}
	loc := map[ssa.Value]ploc{}
	for i, p := range fn.Params {
		val[p] = params[i]
	}
	get := func(v ssa.Value) (Term, bool) {
		if t, ok := val[v]; ok {
			return t, true
		}
		if c, ok := v.(*ssa.Const); ok {
			return e.constant(c), true
		}
		return "", false
	}
	for _, in := range fn.Blocks[0].Instrs {
		switch x := in.(type) {
		case *ssa.DebugRef:
		case *ssa.UnOp:
			if x.Op == token.MUL {
				if fv, ok := x.X.(*ssa.FreeVar); ok {
					t, ok := free[fv]
					if !ok {
						return "", false
					}
					val[x] = t
					continue
				}
				if l, ok := loc[x.X]; ok {
					val[x] = l.base
					continue
				}
				return "", false
			}
			t, ok := get(x.X)
			if !ok {
				return "", false
			}
			switch x.Op {
			case token.NOT:
				val[x] = "(not " + t + ")"
			case token.SUB:
				val[x] = "(- " + t + ")"
			default:
				return "", false
			}
		case *ssa.IndexAddr:
			s, ok1 := get(x.X)
			i, ok2 := get(x.Index)
			sl, isSlice := x.X.Type().Underlying().(*types.Slice)
			if !ok1 || !ok2 || !isSlice {
				return "", false
			}
			loc[x] = ploc{fmt.Sprintf("(select (arr_%s %s) %s)", e.so.of(x.X.Type()), s, i), sl.Elem()}
		case *ssa.FieldAddr:
			l, ok := loc[x.X]
			if !ok {
				return "", false
			}
			ssort := e.so.of(l.ty)
			fi := e.so.fields[ssort]
			st, isStruct := l.ty.Underlying().(*types.Struct)
			if !isStruct || x.Field >= len(fi) || fi[x.Field].opaque {
				return "", false
			}
			loc[x] = ploc{fmt.Sprintf("(%s.%s %s)", ssort, fi[x.Field].name, l.base), st.Field(x.Field).Type()}
		case *ssa.BinOp:
			a, ok1 := get(x.X)
			b, ok2 := get(x.Y)
			if !ok1 || !ok2 {
				return "", false
			}
			isStr := e.so.of(x.X.Type()) == "String"
			switch x.Op {
			case token.LSS:
				if isStr {
					val[x] = fmt.Sprintf("(str.< %s %s)", a, b)
				} else {
					val[x] = fmt.Sprintf("(< %s %s)", a, b)
				}
			case token.GTR:
				if isStr {
					val[x] = fmt.Sprintf("(str.< %s %s)", b, a)
				} else {
					val[x] = fmt.Sprintf("(> %s %s)", a, b)
				}
			case token.LEQ:
				if isStr {
					val[x] = fmt.Sprintf("(str.<= %s %s)", a, b)
				} else {
					val[x] = fmt.Sprintf("(<= %s %s)", a, b)
				}
			case token.GEQ:
				if isStr {
					val[x] = fmt.Sprintf("(str.<= %s %s)", b, a)
				} else {
					val[x] = fmt.Sprintf("(>= %s %s)", a, b)
				}
			case token.ADD:
				if isStr {
					val[x] = fmt.Sprintf("(str.++ %s %s)", a, b)
				} else {
					val[x] = fmt.Sprintf("(+ %s %s)", a, b)
				}
			case token.SUB:
				val[x] = fmt.Sprintf("(- %s %s)", a, b)
			case token.EQL:
				val[x] = fmt.Sprintf("(= %s %s)", a, b)
			case token.NEQ:
				val[x] = fmt.Sprintf("(not (= %s %s))", a, b)
			default:
				return "", false
			}
		case *ssa.Call:
			// method calls such as time.Time.Before: uninterpreted comparison of the two values
			cal := x.Common().StaticCallee()
			if cal == nil {
				return "", false
			}
			var as, sorts []string
			for _, a := range x.Common().Args {
				t, ok := get(a)
				if !ok {
					return "", false
				}
				as = append(as, t)
				sorts = append(sorts, e.so.of(a.Type()))
			}
			f := e.uf(fmt.Sprintf("f_%s_0", clean(cal.String())), sorts, e.so.of(x.Type()))
			val[x] = fmt.Sprintf("(%s %s)", f, strings.Join(as, " "))
		case *ssa.Return:
			if len(x.Results) != 1 {
				return "", false
			}
			return get(x.Results[0])
		default:
			return "", false
		}
	}
	return "", false
}
