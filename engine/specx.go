package main

import (
	"fmt"
	"go/constant"
	"go/types"
	"regexp"
	"strings"

	"golang.org/x/tools/go/ssa"
)

// tval: a translated spec term with its Go type (nil for spec-only sorts) and SMT sort.
type tval struct {
	t    Term
	ty   types.Type
	sort string
}

type specEnv struct {
	e       *enc
	fr      *frame
	pkg     *types.Package
	vars    map[string]tval
	ptrLoc  map[string]*Loc
	mem     map[string]Term
	oldMem  map[string]Term
	results []tval
	resNames []string
	locals  func(name string) (tval, bool)
	hash    func(name string) (Term, bool)
	resLoc  map[int]*Loc // results that are pointers to a cell allocated by the function
	varLoc  map[string]*Loc // variables whose current value lives in memory (map-typed parameters)
	noUnfold bool
	curParam map[string]bool // parameters re-assigned in the body: in loop / call-site clauses the name is the variable's current value (old(p): its entry value)
	inOld    bool
	structArg map[string]*Loc // struct arguments (by value) and the caller's location they were loaded from
	visited Term // ghost set of keys already visited by the enclosing map range
	visitedSort string // sort of the ranged map
	bound   map[string]string // bound variable (SMT name) -> sort, for lemmas emitted under quantifiers
}

func (env *specEnv) clone() *specEnv {
	c := *env
	c.vars = map[string]tval{}
	for k, v := range env.vars {
		c.vars[k] = v
	}
	return &c
}

// stateOnly: the environment of a package state invariant: package-level variables only, so that a parameter or local
// that happens to carry the name of a package variable does not capture it
func stateOnly(env *specEnv) *specEnv {
	c := *env
	c.vars = map[string]tval{}
	c.ptrLoc = map[string]*Loc{}
	c.varLoc = map[string]*Loc{}
	c.locals = nil
	c.results = nil
	c.resNames = nil
	c.curParam = nil
	return &c
}

func (e *enc) memGet(m map[string]Term, key string) Term {
	if v, ok := m[key]; ok {
		return v
	}
	if v, ok := e.init[key]; ok {
		return v
	}
	return e.mem[key]
}

var boundNameRe = regexp.MustCompile(`(^|[^A-Za-z0-9_])[aq]_[A-Za-z]`)

var intTy = types.Typ[types.Int]
var boolTy = types.Typ[types.Bool]
var strTy = types.Typ[types.String]

func (e *enc) mkT(t Term, ty types.Type) tval { return tval{t, ty, e.so.of(ty)} }

// resolve a spec type in the scope of pkg
func (e *enc) resolveTy(pkg *types.Package, t *STy) (types.Type, error) {
	if t == nil {
		return intTy, nil
	}
	switch t.Kind {
	case "slice":
		el, err := e.resolveTy(pkg, t.Elem)
		if err != nil {
			return nil, err
		}
		return types.NewSlice(el), nil
	case "ptr":
		el, err := e.resolveTy(pkg, t.Elem)
		if err != nil {
			return nil, err
		}
		return types.NewPointer(el), nil
	case "map":
		k, err := e.resolveTy(pkg, t.Key)
		if err != nil {
			return nil, err
		}
		el, err := e.resolveTy(pkg, t.Elem)
		if err != nil {
			return nil, err
		}
		return types.NewMap(k, el), nil
	}
	switch t.Name {
	case "int":
		return intTy, nil
	case "bool":
		return boolTy, nil
	case "string":
		return strTy, nil
	case "Node":
		return nodeTy, nil
	}
	name := t.Name
	scope := pkg
	if i := strings.Index(name, "."); i >= 0 {
		pn := name[:i]
		name = name[i+1:]
		scope = nil
		for _, imp := range pkg.Imports() {
			if imp.Name() == pn {
				scope = imp
			}
		}
		if scope == nil {
			// any loaded package with that name
			for path, p := range e.w.ByPath {
				if p.Types != nil && p.Types.Name() == pn && strings.HasPrefix(path, modPath) {
					scope = p.Types
					break
				}
			}
		}
		if scope == nil {
			return nil, fmt.Errorf("unknown package %s in type %s", pn, t.Name)
		}
	}
	obj := scope.Scope().Lookup(name)
	if tn, ok := obj.(*types.TypeName); ok {
		return tn.Type(), nil
	}
	return nil, fmt.Errorf("unknown type %s", t.Name)
}

// nodeTy: the spec-level type of tree nodes (an interface, so its sort is Int)
var nodeTy = types.NewInterfaceType(nil, nil)

func (e *enc) specBool(env *specEnv, x SExpr) (Term, error) {
	v, err := e.specX(env, x)
	if err != nil {
		return "", err
	}
	if v.sort != "Bool" {
		return "", fmt.Errorf("expected a boolean spec expression, got sort %s", v.sort)
	}
	return v.t, nil
}

func (e *enc) specTerm(env *specEnv, x SExpr) (Term, string, error) {
	v, err := e.specX(env, x)
	return v.t, v.sort, err
}

func (e *enc) specX(env *specEnv, x SExpr) (tval, error) {
	switch n := x.(type) {
	case *SInt:
		return tval{n.V, intTy, "Int"}, nil
	case *SStr:
		return tval{smtStr(n.V), strTy, "String"}, nil
	case *SBool:
		if n.V {
			return tval{"true", boolTy, "Bool"}, nil
		}
		return tval{"false", boolTy, "Bool"}, nil
	case *SNil:
		return tval{"0", nil, "nil"}, nil
	case *SIdent:
		return e.specIdent(env, n.Name)
	case *SHash:
		if env.hash != nil {
			if t, ok := env.hash(n.Name); ok {
				return tval{t, intTy, "Int"}, nil
			}
		}
		return tval{}, fmt.Errorf("#%s is not available here", n.Name)
	case *SUnary:
		switch n.Op {
		case "!":
			v, err := e.specX(env, n.X)
			if err != nil {
				return tval{}, err
			}
			return tval{"(not " + v.t + ")", boolTy, "Bool"}, nil
		case "-":
			v, err := e.specX(env, n.X)
			if err != nil {
				return tval{}, err
			}
			return tval{"(- " + v.t + ")", intTy, "Int"}, nil
		case "*":
			return e.specDeref(env, n.X)
		}
	case *SBinary:
		return e.specBinary(env, n)
	case *SCond:
		c, err := e.specBool(env, n.C)
		if err != nil {
			return tval{}, err
		}
		a, err := e.specX(env, n.A)
		if err != nil {
			return tval{}, err
		}
		b, err := e.specX(env, n.B)
		if err != nil {
			return tval{}, err
		}
		return tval{fmt.Sprintf("(ite %s %s %s)", c, a.t, b.t), a.ty, a.sort}, nil
	case *SCall:
		return e.specCall(env, n)
	case *SIndex:
		v, err := e.specX(env, n.X)
		if err != nil {
			return tval{}, err
		}
		i, err := e.specX(env, n.I)
		if err != nil {
			return tval{}, err
		}
		if v.ty == nil {
			return tval{}, fmt.Errorf("indexing a value without Go type")
		}
		switch u := v.ty.Underlying().(type) {
		case *types.Slice:
			return e.mkT(fmt.Sprintf("(select (arr_%s %s) %s)", v.sort, v.t, i.t), u.Elem()), nil
		case *types.Map:
			e.useMap(v.t, v.sort, u)
			return e.mkT(fmt.Sprintf("(select (val_%s %s) %s)", v.sort, v.t, i.t), u.Elem()), nil
		case *types.Basic:
			return tval{fmt.Sprintf("(str.to_code (str.at %s %s))", v.t, i.t), intTy, "Int"}, nil
		case *types.Array:
			return e.mkT(fmt.Sprintf("(select %s %s)", v.t, i.t), u.Elem()), nil
		}
		return tval{}, fmt.Errorf("cannot index %s", v.ty)
	case *SSlice:
		v, err := e.specX(env, n.X)
		if err != nil {
			return tval{}, err
		}
		if v.sort != "String" {
			return tval{}, fmt.Errorf("spec slicing is supported on strings only (use Sub/Prefix spec functions for slices)")
		}
		lo := "0"
		if n.Lo != nil {
			l, err := e.specX(env, n.Lo)
			if err != nil {
				return tval{}, err
			}
			lo = l.t
		}
		hi := fmt.Sprintf("(str.len %s)", v.t)
		if n.Hi != nil {
			h, err := e.specX(env, n.Hi)
			if err != nil {
				return tval{}, err
			}
			hi = h.t
		}
		return tval{fmt.Sprintf("(str.substr %s %s (- %s %s))", v.t, lo, hi, lo), strTy, "String"}, nil
	case *STypeAssert:
		v, err := e.specX(env, n.X)
		if err != nil {
			return tval{}, err
		}
		ty, err := e.resolveTy(env.pkg, n.Ty)
		if err != nil {
			return tval{}, err
		}
		if v.sort != "Int" || isIface(ty) {
			return tval{}, fmt.Errorf("type assertion in a spec needs an interface value and a concrete type")
		}
		if n.Test {
			tag := e.uf("dyntag", []string{"Int"}, "Int")
			return e.mkT(fmt.Sprintf("(and (not (= %s 0)) (= (%s %s) %d))", v.t, tag, v.t, e.typeTag(ty)), boolTy), nil
		}
		s := e.so.of(ty)
		unbox := e.uf("unbox_"+clean(s), []string{"Int"}, s)
		return e.mkT(fmt.Sprintf("(%s %s)", unbox, v.t), ty), nil
	case *SField:
		// package-qualified global / constant: pkg.Name
		if id, ok := n.X.(*SIdent); ok {
			if _, isVar := env.vars[id.Name]; !isVar {
				if p := e.findPkg(env.pkg, id.Name); p != nil {
					if _, shadow := e.lookupAny(env, id.Name); !shadow {
						return e.specGlobal(env, p, n.Name)
					}
				}
			}
		}
		v, err := e.specX(env, n.X)
		if err != nil {
			return tval{}, err
		}
		return e.specField(env, v, n.Name)
	case *SQuant:
		if e.finder {
			if t, ok, err := e.expandQuant(env, n); ok {
				return t, err
			}
		}
		env2 := env.clone()
		var binds []string
		var guards []string
		for _, v := range n.Vars {
			ty, err := e.resolveTy(env.pkg, v.Ty)
			if err != nil {
				return tval{}, err
			}
			name := "q_" + v.Name
			env2.vars[v.Name] = e.mkT(name, ty)
			env2.vars["#q:"+v.Name] = tval{}
			if env2.bound == nil {
				env2.bound = map[string]string{}
			} else {
				nb := map[string]string{}
				for k, v := range env2.bound {
					nb[k] = v
				}
				env2.bound = nb
			}
			env2.bound[name] = e.so.of(ty)
			binds = append(binds, fmt.Sprintf("(%s %s)", name, e.so.of(ty)))
			guards = append(guards, e.wfConds(name, ty, 1)...)
		}
		body, err := e.specBool(env2, n.Body)
		if err != nil {
			return tval{}, err
		}
		if len(guards) > 0 {
			g := "(and " + strings.Join(guards, " ") + ")"
			if n.Forall {
				body = fmt.Sprintf("(=> %s %s)", g, body)
			} else {
				body = fmt.Sprintf("(and %s %s)", g, body)
			}
		}
		var pats []string
		for _, tr := range n.Trig {
			var ts []string
			for _, t := range tr {
				tv, err := e.specX(env2, t)
				if err != nil {
					return tval{}, err
				}
				ts = append(ts, tv.t)
			}
			pats = append(pats, ":pattern ("+strings.Join(ts, " ")+")")
		}
		if len(pats) > 0 {
			body = fmt.Sprintf("(! %s %s)", body, strings.Join(pats, " "))
		}
		q := "forall"
		if !n.Forall {
			q = "exists"
		}
		return tval{fmt.Sprintf("(%s (%s) %s)", q, strings.Join(binds, " "), body), boolTy, "Bool"}, nil
	}
	return tval{}, fmt.Errorf("unsupported spec expression %T", x)
}

func (e *enc) lookupAny(env *specEnv, name string) (tval, bool) {
	if v, ok := env.vars[name]; ok {
		return v, true
	}
	if env.locals != nil {
		if v, ok := env.locals(name); ok {
			return v, true
		}
	}
	return tval{}, false
}

func (e *enc) findPkg(from *types.Package, name string) *types.Package {
	if from == nil {
		return nil
	}
	for _, imp := range from.Imports() {
		if imp.Name() == name {
			return imp
		}
	}
	return nil
}

func (e *enc) specIdent(env *specEnv, name string) (tval, error) {
	if l, ok := env.varLoc[name]; ok && l.ty != nil {
		if _, shadow := env.vars["#q:"+name]; !shadow {
			return e.mkT(e.readIn(env.mem, l), l.ty), nil
		}
	}
	if env.curParam[name] && !env.inOld && env.locals != nil {
		if _, quantified := env.vars["#q:"+name]; !quantified {
			if v, ok := env.locals(name); ok {
				return v, nil
			}
		}
	}
	if v, ok := env.vars[name]; ok {
		return v, nil
	}
	if name == "result" && len(env.results) >= 1 {
		return env.results[0], nil
	}
	if strings.HasPrefix(name, "result") && len(name) == 7 && name[6] >= '0' && name[6] <= '9' {
		i := int(name[6] - '0')
		if i < len(env.results) {
			return env.results[i], nil
		}
	}
	for i, rn := range env.resNames {
		if rn == name && rn != "" && rn != "_" && i < len(env.results) {
			return env.results[i], nil
		}
	}
	if env.locals != nil {
		if v, ok := env.locals(name); ok {
			return v, nil
		}
	}
	if env.pkg != nil {
		if v, err := e.specGlobal(env, env.pkg, name); err == nil {
			return v, nil
		}
	}
	if f, ok := e.ss.Funcs[name]; ok && len(f.Params) == 0 {
		return e.specCall(env, &SCall{Fun: name})
	}
	return tval{}, fmt.Errorf("unknown identifier %q", name)
}

func (e *enc) specGlobal(env *specEnv, pkg *types.Package, name string) (tval, error) {
	obj := pkg.Scope().Lookup(name)
	switch o := obj.(type) {
	case *types.Const:
		switch o.Val().Kind() {
		case constant.Int:
			i, _ := constant.Int64Val(o.Val())
			return tval{smtInt(i), intTy, "Int"}, nil
		case constant.String:
			return tval{smtStr(constant.StringVal(o.Val())), strTy, "String"}, nil
		case constant.Bool:
			return tval{fmt.Sprint(constant.BoolVal(o.Val())), boolTy, "Bool"}, nil
		}
	case *types.Var:
		sp := e.w.Prog.Package(pkg)
		if sp == nil {
			return tval{}, fmt.Errorf("package %s not built", pkg.Path())
		}
		g, ok := sp.Members[name].(*ssa.Global)
		if !ok {
			return tval{}, fmt.Errorf("%s.%s is not a package-level variable", pkg.Name(), name)
		}
		key := e.ensureGlobal(g)
		return e.mkT(e.memGet(env.mem, key), o.Type()), nil
	}
	return tval{}, fmt.Errorf("unknown identifier %q in package %s", name, pkg.Name())
}

func resultIndex(name string) int {
	if name == "result" {
		return 0
	}
	if strings.HasPrefix(name, "result") && len(name) == 7 && name[6] >= '0' && name[6] <= '9' {
		return int(name[6] - '0')
	}
	return -1
}

func (e *enc) specDeref(env *specEnv, x SExpr) (tval, error) {
	if id, ok := x.(*SIdent); ok {
		if ri := resultIndex(id.Name); ri >= 0 && env.resLoc != nil {
			if l, ok := env.resLoc[ri]; ok && l.ty != nil {
				return e.mkT(e.readIn(env.mem, l), l.ty), nil
			}
		}
		if l, ok := env.ptrLoc[id.Name]; ok {
			if l.ty == nil {
				return tval{}, fmt.Errorf("dereference of opaque location %s", id.Name)
			}
			return e.mkT(e.readIn(env.mem, l), l.ty), nil
		}
	}
	v, err := e.specX(env, x)
	if err != nil {
		return tval{}, err
	}
	if v.ty == nil {
		return tval{}, fmt.Errorf("dereference of untyped value")
	}
	pt, ok := v.ty.Underlying().(*types.Pointer)
	if !ok {
		return tval{}, fmt.Errorf("dereference of non-pointer %s", v.ty)
	}
	key := e.heapKey(pt.Elem())
	return e.mkT(fmt.Sprintf("(select %s %s)", e.memGet(env.mem, key), v.t), pt.Elem()), nil
}

func (e *enc) specField(env *specEnv, v tval, name string) (tval, error) {
	if v.ty == nil {
		return tval{}, fmt.Errorf("field %s of untyped value", name)
	}
	obj, index, _ := types.LookupFieldOrMethod(v.ty, true, nil, name)
	if obj == nil {
		// unexported field of another package: search manually
		obj, index = lookupFieldAnyPkg(v.ty, name)
	}
	fv, ok := obj.(*types.Var)
	if !ok || !fv.IsField() {
		return tval{}, fmt.Errorf("no field %s in %s", name, v.ty)
	}
	cur := v
	for _, ix := range index {
		t := cur.ty
		if pt, ok := t.Underlying().(*types.Pointer); ok {
			key := e.heapKey(pt.Elem())
			cur = e.mkT(fmt.Sprintf("(select %s %s)", e.memGet(env.mem, key), cur.t), pt.Elem())
			t = pt.Elem()
		}
		st, ok := t.Underlying().(*types.Struct)
		if !ok {
			return tval{}, fmt.Errorf("field access on non-struct %s", t)
		}
		ssort := e.so.of(t)
		fi := e.so.fields[ssort]
		if ix >= len(fi) {
			return tval{}, fmt.Errorf("struct %s is opaque", t)
		}
		if fi[ix].opaque {
			return tval{fmt.Sprintf("(%s.%s %s)", ssort, fi[ix].name, cur.t), nil, fi[ix].sort}, nil
		}
		cur = e.mkT(fmt.Sprintf("(%s.%s %s)", ssort, fi[ix].name, cur.t), st.Field(ix).Type())
	}
	return cur, nil
}

func lookupFieldAnyPkg(t types.Type, name string) (types.Object, []int) {
	if p, ok := t.Underlying().(*types.Pointer); ok {
		t = p.Elem()
	}
	st, ok := t.Underlying().(*types.Struct)
	if !ok {
		return nil, nil
	}
	for i := 0; i < st.NumFields(); i++ {
		if st.Field(i).Name() == name {
			return st.Field(i), []int{i}
		}
	}
	for i := 0; i < st.NumFields(); i++ {
		if st.Field(i).Embedded() {
			if o, idx := lookupFieldAnyPkg(st.Field(i).Type(), name); o != nil {
				return o, append([]int{i}, idx...)
			}
		}
	}
	return nil, nil
}

func (e *enc) specBinary(env *specEnv, n *SBinary) (tval, error) {
	// nil comparisons are type directed
	if n.Op == "==" || n.Op == "!=" {
		_, ln := n.X.(*SNil)
		_, rn := n.Y.(*SNil)
		if ln || rn {
			other := n.X
			if ln {
				other = n.Y
			}
			var t Term
			if id, ok := other.(*SIdent); ok {
				if _, ok := env.ptrLoc[id.Name]; ok {
					t = "false"
				}
			}
			if t == "" {
				v, err := e.specX(env, other)
				if err != nil {
					return tval{}, err
				}
				switch {
				case strings.HasPrefix(v.sort, "Slice_") || strings.HasPrefix(v.sort, "Map_"):
					t = fmt.Sprintf("(nil_%s %s)", v.sort, v.t)
				case v.sort == "Int":
					t = fmt.Sprintf("(= %s 0)", v.t)
				default:
					return tval{}, fmt.Errorf("nil comparison on sort %s", v.sort)
				}
			}
			if n.Op == "!=" {
				t = "(not " + t + ")"
			}
			return tval{t, boolTy, "Bool"}, nil
		}
	}
	a, err := e.specX(env, n.X)
	if err != nil {
		return tval{}, err
	}
	b, err := e.specX(env, n.Y)
	if err != nil {
		return tval{}, err
	}
	bl := func(t string) (tval, error) { return tval{t, boolTy, "Bool"}, nil }
	switch n.Op {
	case "==>":
		return bl(fmt.Sprintf("(=> %s %s)", a.t, b.t))
	case "<==>":
		return bl(fmt.Sprintf("(= %s %s)", a.t, b.t))
	case "&&":
		return bl(fmt.Sprintf("(and %s %s)", a.t, b.t))
	case "||":
		return bl(fmt.Sprintf("(or %s %s)", a.t, b.t))
	case "==", "!=":
		if a.sort != b.sort {
			return tval{}, fmt.Errorf("comparison of different sorts %s and %s", a.sort, b.sort)
		}
		t := fmt.Sprintf("(= %s %s)", a.t, b.t)
		if strings.HasPrefix(a.sort, "Slice_") {
			t = e.seqEq(a, b)
		}
		if n.Op == "!=" {
			t = "(not " + t + ")"
		}
		return bl(t)
	case "<", "<=", ">", ">=":
		if a.sort == "String" {
			switch n.Op {
			case "<":
				return bl(fmt.Sprintf("(str.< %s %s)", a.t, b.t))
			case "<=":
				return bl(fmt.Sprintf("(str.<= %s %s)", a.t, b.t))
			case ">":
				return bl(fmt.Sprintf("(str.< %s %s)", b.t, a.t))
			default:
				return bl(fmt.Sprintf("(str.<= %s %s)", b.t, a.t))
			}
		}
		return bl(fmt.Sprintf("(%s %s %s)", n.Op, a.t, b.t))
	case "+":
		if a.sort == "String" {
			return tval{fmt.Sprintf("(str.++ %s %s)", a.t, b.t), strTy, "String"}, nil
		}
		return tval{fmt.Sprintf("(+ %s %s)", a.t, b.t), intTy, "Int"}, nil
	case "-":
		return tval{fmt.Sprintf("(- %s %s)", a.t, b.t), intTy, "Int"}, nil
	case "*":
		return tval{fmt.Sprintf("(* %s %s)", a.t, b.t), intTy, "Int"}, nil
	case "/":
		return tval{fmt.Sprintf("(div %s %s)", a.t, b.t), intTy, "Int"}, nil
	case "%":
		return tval{fmt.Sprintf("(mod %s %s)", a.t, b.t), intTy, "Int"}, nil
	case "in":
		if strings.HasPrefix(b.sort, "Map_") {
			return bl(fmt.Sprintf("(select (dom_%s %s) %s)", b.sort, b.t, a.t))
		}
		return tval{}, fmt.Errorf("'in' needs a map on the right")
	}
	return tval{}, fmt.Errorf("unsupported operator %s", n.Op)
}

// seqEq: extensional equality of two slices (length and elements below the length)
func (e *enc) seqEq(a, b tval) Term {
	s := a.sort
	return fmt.Sprintf("(and (= (len_%s %s) (len_%s %s)) (forall ((sq_i Int)) (! (=> (and (<= 0 sq_i) (< sq_i (len_%s %s))) (= (select (arr_%s %s) sq_i) (select (arr_%s %s) sq_i))) :pattern ((select (arr_%s %s) sq_i)) :pattern ((select (arr_%s %s) sq_i)))))",
		s, a.t, s, b.t, s, a.t, s, a.t, s, b.t, s, a.t, s, b.t)
}

func (e *enc) specCall(env *specEnv, n *SCall) (tval, error) {
	args := func() ([]tval, error) {
		var out []tval
		for _, a := range n.Args {
			v, err := e.specX(env, a)
			if err != nil {
				return nil, err
			}
			out = append(out, v)
		}
		return out, nil
	}
	bl := func(t string) (tval, error) { return tval{t, boolTy, "Bool"}, nil }
	fun := n.Fun
	if _, user := e.ss.Funcs[fun]; user && fun != "old" && fun != "len" {
		fun = "\x00user" // a spec function of the contract files shadows a builtin of the same name
	}
	switch fun {
	case "old":
		if len(n.Args) != 1 {
			return tval{}, fmt.Errorf("old takes one argument")
		}
		if env.oldMem == nil {
			return tval{}, fmt.Errorf("old() is not available in this clause")
		}
		env2 := env.clone()
		env2.mem = env.oldMem
		env2.inOld = true
		return e.specX(env2, n.Args[0])
	case "len":
		as, err := args()
		if err != nil {
			return tval{}, err
		}
		if len(as) != 1 {
			return tval{}, fmt.Errorf("len takes one argument")
		}
		switch {
		case as[0].sort == "String":
			return tval{fmt.Sprintf("(str.len %s)", as[0].t), intTy, "Int"}, nil
		case strings.HasPrefix(as[0].sort, "Slice_"):
			e.useSlice(as[0].t, as[0].sort)
			return tval{fmt.Sprintf("(len_%s %s)", as[0].sort, as[0].t), intTy, "Int"}, nil
		case strings.HasPrefix(as[0].sort, "Map_"):
			return tval{fmt.Sprintf("(Card_%s (dom_%s %s))", as[0].sort, as[0].sort, as[0].t), intTy, "Int"}, nil
		}
		return tval{}, fmt.Errorf("len of sort %s", as[0].sort)
	case "Ranged":
		// Ranged(k): the slice that loop k ranges over (a value computed before the loop)
		if len(n.Args) != 1 || env.fr == nil {
			return tval{}, fmt.Errorf("Ranged takes the ordinal of a range loop")
		}
		lit, ok := n.Args[0].(*SInt)
		if !ok {
			return tval{}, fmt.Errorf("Ranged takes a literal loop ordinal")
		}
		for h, k := range env.fr.loopOrd {
			if fmt.Sprint(k) != lit.V {
				continue
			}
			var idx *ssa.Phi
			for _, in := range h.Instrs {
				if phi, ok := in.(*ssa.Phi); ok && phi.Comment == "rangeindex" {
					idx = phi
				}
			}
			if idx == nil {
				break
			}
			for b := range env.fr.loopBlocks(h) {
				for _, in := range b.Instrs {
					var x, ix ssa.Value
					switch a := in.(type) {
					case *ssa.IndexAddr:
						x, ix = a.X, a.Index
					case *ssa.Index:
						x, ix = a.X, a.Index
					default:
						continue
					}
					if inc, ok := ix.(*ssa.BinOp); ok && inc.X == ssa.Value(idx) {
						if _, isSlice := x.Type().Underlying().(*types.Slice); isSlice {
							if _, defined := env.fr.val[x]; defined {
								return e.mkT(e.value(x), x.Type()), nil
							}
						}
					}
				}
			}
		}
		return tval{}, fmt.Errorf("Ranged(%s): no range loop over a slice with that ordinal whose slice is known here", lit.V)
	case "Extends":
		// Extends(new, old, n): new has n more elements than old and agrees with old on old's indices
		as, err := args()
		if err != nil {
			return tval{}, err
		}
		if len(as) != 3 || !strings.HasPrefix(as[0].sort, "Slice_") || as[0].sort != as[1].sort {
			return tval{}, fmt.Errorf("Extends(new, old, n) needs two slices of the same type and a count")
		}
		s := as[0].sort
		return bl(fmt.Sprintf("(and (= (len_%s %s) (+ (len_%s %s) %s)) (forall ((ex_i Int)) (! (=> (and (<= 0 ex_i) (< ex_i (len_%s %s))) (= (select (arr_%s %s) ex_i) (select (arr_%s %s) ex_i))) :pattern ((select (arr_%s %s) ex_i)))))",
			s, as[0].t, s, as[1].t, as[2].t, s, as[1].t, s, as[0].t, s, as[1].t, s, as[0].t))
	case "SeqEq":
		as, err := args()
		if err != nil {
			return tval{}, err
		}
		if len(as) != 2 || as[0].sort != as[1].sort || !strings.HasPrefix(as[0].sort, "Slice_") {
			return tval{}, fmt.Errorf("SeqEq needs two slices of the same type")
		}
		return bl(e.seqEq(as[0], as[1]))
	case "Allocated":
		// Allocated(p): p refers to an object in the set of allocated references of the state the clause is evaluated in
		as, err := args()
		if err != nil {
			return tval{}, err
		}
		if len(as) != 1 || as[0].ty == nil {
			return tval{}, fmt.Errorf("Allocated(p) needs a pointer")
		}
		pt, ok := as[0].ty.Underlying().(*types.Pointer)
		if !ok {
			return tval{}, fmt.Errorf("Allocated(p) needs a pointer")
		}
		ak := e.allocSetKey(pt.Elem())
		return bl(fmt.Sprintf("(select %s %s)", e.memGet(env.mem, ak), as[0].t))
	case "Visited":
		if env.visited == "" {
			return tval{}, fmt.Errorf("Visited(k) is only available in invariants of a loop that ranges over a map")
		}
		as, err := args()
		if err != nil {
			return tval{}, err
		}
		return bl(fmt.Sprintf("(select %s %s)", env.visited, as[0].t))
	case "NVisited":
		// number of keys already visited by the enclosing map range
		if env.visited == "" || env.visitedSort == "" {
			return tval{}, fmt.Errorf("NVisited() is only available in invariants of a loop that ranges over a map")
		}
		return tval{fmt.Sprintf("(Card_%s %s)", env.visitedSort, env.visited), intTy, "Int"}, nil
	case "SumVals":
		// SumVals(m): the sum of the values of an int-valued map (axioms: empty map, update of one key)
		as, err := args()
		if err != nil || len(as) != 1 || !strings.HasPrefix(as[0].sort, "Map_") || !strings.HasSuffix(as[0].sort, "_Int") {
			return tval{}, fmt.Errorf("SumVals(m) needs a map with integer values")
		}
		ms := as[0].sort
		mt, _ := as[0].ty.Underlying().(*types.Map)
		if mt == nil {
			return tval{}, fmt.Errorf("SumVals(m): not a map")
		}
		ks := e.so.of(mt.Key())
		f := e.uf("MapSum_"+clean(ms), []string{fmt.Sprintf("(Array %s Bool)", ks), fmt.Sprintf("(Array %s Int)", ks)}, "Int")
		e.once("mapsum#"+ms, func() {
			e.assumps["SumVals: sum of the values of a finite int-valued map: 0 for the empty map; updating one key changes the sum by the difference of the new and the old value of that key"] = true
			e.decls = append(e.decls,
				fmt.Sprintf("(assert (forall ((v (Array %s Int))) (! (= (%s ((as const (Array %s Bool)) false) v) 0) :pattern ((%s ((as const (Array %s Bool)) false) v)))))", ks, f, ks, f, ks),
				fmt.Sprintf("(assert (forall ((d (Array %[1]s Bool)) (v (Array %[1]s Int)) (k %[1]s) (x Int)) (! (= (%[2]s (store d k true) (store v k x)) (+ (%[2]s d v) (- x (ite (select d k) (select v k) 0)))) :pattern ((%[2]s (store d k true) (store v k x))))))", ks, f))
		})
		return tval{fmt.Sprintf("(%s (dom_%s %s) (val_%s %s))", f, ms, as[0].t, ms, as[0].t), intTy, "Int"}, nil
	case "ExtCall":
		// ExtCall("import/path.Func", args...): the (deterministic, uninterpreted) result of an external function, the very
		// function symbol the encoder uses for calls of it in the code
		if len(n.Args) < 1 {
			return tval{}, fmt.Errorf("ExtCall(\"pkg/path.Func\", args...)")
		}
		lit, ok := n.Args[0].(*SStr)
		if !ok {
			return tval{}, fmt.Errorf("ExtCall needs a literal function name")
		}
		if strings.HasPrefix(lit.V, "(") {
			// a method: "(pkg/path.Type).Method" or "(*pkg/path.Type).Method"; the receiver is the first argument
			cl := strings.Index(lit.V, ").")
			if cl < 0 {
				return tval{}, fmt.Errorf("ExtCall: %q is not (pkg/path.Type).Method", lit.V)
			}
			rt, mname := strings.TrimPrefix(lit.V[1:cl], "*"), lit.V[cl+2:]
			d := strings.LastIndex(rt, ".")
			if d < 0 {
				return tval{}, fmt.Errorf("ExtCall: %q is not (pkg/path.Type).Method", lit.V)
			}
			pk := e.w.ByPath[rt[:d]]
			if pk == nil || pk.Types == nil {
				return tval{}, fmt.Errorf("ExtCall: package %s is not loaded", rt[:d])
			}
			tn, ok := pk.Types.Scope().Lookup(rt[d+1:]).(*types.TypeName)
			if !ok {
				return tval{}, fmt.Errorf("ExtCall: no type %s", rt)
			}
			var recvTy types.Type = tn.Type()
			if strings.HasPrefix(lit.V, "(*") {
				recvTy = types.NewPointer(recvTy)
			}
			obj, _, _ := types.LookupFieldOrMethod(recvTy, true, pk.Types, mname)
			fobj, ok := obj.(*types.Func)
			if !ok {
				return tval{}, fmt.Errorf("ExtCall: no method %s", lit.V)
			}
			sig := fobj.Type().(*types.Signature)
			if sig.Results().Len() != 1 || sig.Params().Len() != len(n.Args)-2 {
				return tval{}, fmt.Errorf("ExtCall: %s needs the receiver, %d arguments and one result", lit.V, sig.Params().Len())
			}
			sorts, ts := []string{e.so.of(recvTy)}, []string{}
			for j := 1; j < len(n.Args); j++ {
				v, err := e.specX(env, n.Args[j])
				if err != nil {
					return tval{}, err
				}
				if j >= 2 {
					sorts = append(sorts, e.so.of(sig.Params().At(j-2).Type()))
				}
				ts = append(ts, v.t)
			}
			rty := sig.Results().At(0).Type()
			f := e.uf(fmt.Sprintf("f_%s_%d", clean(lit.V), 0), sorts, e.so.of(rty))
			return e.mkT(fmt.Sprintf("(%s %s)", f, strings.Join(ts, " ")), rty), nil
		}
		i := strings.LastIndex(lit.V, ".")
		if i < 0 {
			return tval{}, fmt.Errorf("ExtCall: %q is not pkg/path.Func", lit.V)
		}
		pk := e.w.ByPath[lit.V[:i]]
		if pk == nil || pk.Types == nil {
			return tval{}, fmt.Errorf("ExtCall: package %s is not loaded", lit.V[:i])
		}
		fobj, ok := pk.Types.Scope().Lookup(lit.V[i+1:]).(*types.Func)
		if !ok {
			return tval{}, fmt.Errorf("ExtCall: no function %s", lit.V)
		}
		sig := fobj.Type().(*types.Signature)
		if sig.Results().Len() != 1 || sig.Params().Len() != len(n.Args)-1 {
			return tval{}, fmt.Errorf("ExtCall: %s needs %d arguments and one result", lit.V, sig.Params().Len())
		}
		var sorts, ts []string
		for j := 1; j < len(n.Args); j++ {
			v, err := e.specX(env, n.Args[j])
			if err != nil {
				return tval{}, err
			}
			sorts = append(sorts, e.so.of(sig.Params().At(j-1).Type()))
			ts = append(ts, v.t)
		}
		rty := sig.Results().At(0).Type()
		f := e.uf(fmt.Sprintf("f_%s_%d", clean(lit.V), 0), sorts, e.so.of(rty))
		return e.mkT(fmt.Sprintf("(%s %s)", f, strings.Join(ts, " ")), rty), nil
	case "Readable":
		as, err := args()
		if err != nil || len(as) != 1 || as[0].sort != "String" {
			return tval{}, fmt.Errorf("Readable(path string)")
		}
		return bl(fmt.Sprintf("(%s %s)", e.uf("FileReadable", []string{"String"}, "Bool"), as[0].t))
	case "File":
		// File(path): the current content of the file in the ghost file system
		as, err := args()
		if err != nil || len(as) != 1 || as[0].sort != "String" {
			return tval{}, fmt.Errorf("File(path string)")
		}
		k := e.fsMem()
		return tval{fmt.Sprintf("(select %s %s)", e.memGet(env.mem, k), as[0].t), strTy, "String"}, nil
	case "Split", "Join":
		as, err := args()
		if err != nil || len(as) != 2 {
			return tval{}, fmt.Errorf("%s takes two arguments", n.Fun)
		}
		ss := e.needStrSlice()
		if n.Fun == "Split" {
			r := fmt.Sprintf("(SplitF %s %s)", as[0].t, as[1].t)
			if !boundNameRe.MatchString(r) {
				e.once("splitfacts#"+r, func() { e.splitFacts(as[0].t, as[1].t, r) })
			}
			return tval{r, strSliceTy, ss}, nil
		}
		e.joinAxioms()
		return tval{fmt.Sprintf("(JoinF %s %s)", as[0].t, as[1].t), strTy, "String"}, nil
	case "IsKind":
		// IsKind(n, "XContext"): the node is a rule context of that generated type ("TerminalNodeImpl" for a token)
		if len(n.Args) != 2 {
			return tval{}, fmt.Errorf("IsKind(node, \"ContextType\")")
		}
		nv, err := e.specX(env, n.Args[0])
		if err != nil {
			return tval{}, err
		}
		lit, ok := n.Args[1].(*SStr)
		if !ok {
			return tval{}, fmt.Errorf("IsKind needs a literal type name")
		}
		return bl(fmt.Sprintf("(and (not (= %s 0)) (= (%s %s) %d))", nv.t, e.fKind(), nv.t, e.kindTag(lit.V)))
	case "Child", "ChildN", "Count", "Kid", "NKids", "Parent":
		// tree structure in specs: Child(n, "sym") first child produced by grammar symbol sym, ChildN(n, "sym", i), Count(n, "sym"),
		// Kid(n, i) the i-th child, NKids(n), Parent(n)
		if len(n.Args) < 1 {
			return tval{}, fmt.Errorf("%s needs a node", n.Fun)
		}
		nv, err := e.specX(env, n.Args[0])
		if err != nil {
			return tval{}, err
		}
		symOf := func() (int, error) {
			if len(n.Args) < 2 {
				return 0, fmt.Errorf("%s(node, \"symbol\")", n.Fun)
			}
			lit, ok := n.Args[1].(*SStr)
			if !ok {
				return 0, fmt.Errorf("%s needs a literal grammar symbol", n.Fun)
			}
			return e.symTag(lit.V), nil
		}
		switch n.Fun {
		case "Child":
			sid, err := symOf()
			if err != nil {
				return tval{}, err
			}
			return tval{fmt.Sprintf("(%s %s %d 0)", e.fNth(), nv.t, sid), nodeTy, "Int"}, nil
		case "ChildN":
			sid, err := symOf()
			if err != nil || len(n.Args) != 3 {
				return tval{}, fmt.Errorf("ChildN(node, \"symbol\", i)")
			}
			iv, err := e.specX(env, n.Args[2])
			if err != nil {
				return tval{}, err
			}
			return tval{fmt.Sprintf("(%s %s %d %s)", e.fNth(), nv.t, sid, iv.t), nodeTy, "Int"}, nil
		case "Count":
			sid, err := symOf()
			if err != nil {
				return tval{}, err
			}
			return tval{fmt.Sprintf("(%s %s %d)", e.fCnt(), nv.t, sid), intTy, "Int"}, nil
		case "Kid":
			if len(n.Args) != 2 {
				return tval{}, fmt.Errorf("Kid(node, i)")
			}
			iv, err := e.specX(env, n.Args[1])
			if err != nil {
				return tval{}, err
			}
			return tval{fmt.Sprintf("(%s %s %s)", e.fChild(), nv.t, iv.t), nodeTy, "Int"}, nil
		case "NKids":
			return tval{fmt.Sprintf("(%s %s)", e.fNchild(), nv.t), intTy, "Int"}, nil
		default:
			return tval{fmt.Sprintf("(%s %s)", e.fParent(), nv.t), nodeTy, "Int"}, nil
		}
	case "GetText", "GetLine", "GetColumn", "GetTokenType", "GetChildCount", "GetStart", "GetStop", "GetSymbol":
		as, err := args()
		if err != nil {
			return tval{}, err
		}
		if len(as) != 1 {
			return tval{}, fmt.Errorf("%s takes one argument", n.Fun)
		}
		rs, rty := "Int", types.Type(intTy)
		if n.Fun == "GetText" {
			rs, rty = "String", strTy
		}
		if n.Fun == "GetStart" || n.Fun == "GetStop" || n.Fun == "GetSymbol" {
			rty = nodeTy
		}
		f := e.uf(fmt.Sprintf("nm_%s_Int_0", n.Fun), []string{"Int"}, rs)
		return tval{fmt.Sprintf("(%s %s)", f, as[0].t), rty, rs}, nil
	case "ReMatch":
		// ReMatch(s, "go regexp literal"): s contains a match of the expression (anchors honoured)
		if len(n.Args) != 2 {
			return tval{}, fmt.Errorf("ReMatch(s, pattern)")
		}
		lit, ok := n.Args[1].(*SStr)
		if !ok {
			return tval{}, fmt.Errorf("ReMatch needs a literal pattern")
		}
		sv, err := e.specX(env, n.Args[0])
		if err != nil {
			return tval{}, err
		}
		re, err := regexToSMT(lit.V)
		if err != nil {
			return tval{}, err
		}
		return bl(fmt.Sprintf("(str.in_re %s %s)", sv.t, re.unanchored()))
	case "ReGroup":
		// ReGroup(s, "pattern", i): the i-th element of FindStringSubmatch(s) for that expression
		if len(n.Args) != 3 {
			return tval{}, fmt.Errorf("ReGroup(s, pattern, i)")
		}
		lit, ok := n.Args[1].(*SStr)
		if !ok {
			return tval{}, fmt.Errorf("ReGroup needs a literal pattern")
		}
		sv, err := e.specX(env, n.Args[0])
		if err != nil {
			return tval{}, err
		}
		iv, err := e.specX(env, n.Args[2])
		if err != nil {
			return tval{}, err
		}
		rt, _, err := e.reSubTerm(lit.V, sv.t)
		if err != nil {
			return tval{}, err
		}
		return tval{fmt.Sprintf("(select (arr_%s %s) %s)", e.needStrSlice(), rt, iv.t), strTy, "String"}, nil
	case "Atoi":
		as, err := args()
		if err != nil {
			return tval{}, err
		}
		return tval{fmt.Sprintf("(AtoiV %s)", as[0].t), intTy, "Int"}, nil
	case "After":
		// After(s, sep): the text after the first occurrence of sep in s ("" if sep does not occur)
		as, err := args()
		if err != nil {
			return tval{}, err
		}
		return tval{fmt.Sprintf("(ite (str.contains %[1]s %[2]s) (str.substr %[1]s (+ (str.indexof %[1]s %[2]s 0) (str.len %[2]s)) (- (str.len %[1]s) (+ (str.indexof %[1]s %[2]s 0) (str.len %[2]s)))) \"\")", as[0].t, as[1].t), strTy, "String"}, nil
	case "PathBase", "PathExt", "TrimSuffix":
		as, err := args()
		if err != nil {
			return tval{}, err
		}
		if n.Fun == "TrimSuffix" {
			return tval{fmt.Sprintf("(ite (str.suffixof %[2]s %[1]s) (str.substr %[1]s 0 (- (str.len %[1]s) (str.len %[2]s))) %[1]s)", as[0].t, as[1].t), strTy, "String"}, nil
		}
		ground := !boundNameRe.MatchString(as[0].t)
		if n.Fun == "PathBase" {
			if ground {
				return tval{e.pathBase(as[0].t), strTy, "String"}, nil
			}
			return tval{fmt.Sprintf("(%s %s)", e.uf("PathBase", []string{"String"}, "String"), as[0].t), strTy, "String"}, nil
		}
		if ground {
			return tval{e.pathExt(as[0].t), strTy, "String"}, nil
		}
		return tval{fmt.Sprintf("(%s %s)", e.uf("PathExt", []string{"String"}, "String"), as[0].t), strTy, "String"}, nil
	case "TrimSpace", "TrimLeft":
		as, err := args()
		if err != nil {
			return tval{}, err
		}
		if n.Fun == "TrimSpace" {
			return tval{fmt.Sprintf("(TrimSpaceF %s)", as[0].t), strTy, "String"}, nil
		}
		return tval{fmt.Sprintf("(TrimLeftF %s %s)", as[0].t, as[1].t), strTy, "String"}, nil
	case "HasPrefix", "HasSuffix", "Contains", "IndexOf", "ReplaceAll", "Itoa", "Upper", "Lower", "RuneCount", "At":
		as, err := args()
		if err != nil {
			return tval{}, err
		}
		switch n.Fun {
		case "HasPrefix":
			return bl(fmt.Sprintf("(str.prefixof %s %s)", as[1].t, as[0].t))
		case "HasSuffix":
			return bl(fmt.Sprintf("(str.suffixof %s %s)", as[1].t, as[0].t))
		case "Contains":
			return bl(fmt.Sprintf("(str.contains %s %s)", as[0].t, as[1].t))
		case "IndexOf":
			return tval{fmt.Sprintf("(str.indexof %s %s 0)", as[0].t, as[1].t), intTy, "Int"}, nil
		case "ReplaceAll":
			return tval{fmt.Sprintf("(str.replace_all %s %s %s)", as[0].t, as[1].t, as[2].t), strTy, "String"}, nil
		case "At":
			return tval{fmt.Sprintf("(str.at %s %s)", as[0].t, as[1].t), strTy, "String"}, nil
		case "Itoa":
			return tval{fmt.Sprintf("(Itoa %s)", as[0].t), strTy, "String"}, nil
		case "Upper":
			e.caseAxioms()
			return tval{fmt.Sprintf("(Upper %s)", as[0].t), strTy, "String"}, nil
		case "Lower":
			e.caseAxioms()
			return tval{fmt.Sprintf("(Lower %s)", as[0].t), strTy, "String"}, nil
		case "RuneCount":
			e.uf("RuneCount", []string{"String"}, "Int")
			e.declRuneCountAxioms()
			return tval{fmt.Sprintf("(RuneCount %s)", as[0].t), intTy, "Int"}, nil
		}
	}
	f, ok := e.ss.Funcs[n.Fun]
	if !ok {
		// a pure Go function of the repository (contract with `pure`): Func or pkgname.Func
		if pf := e.findPure(env, n.Fun); pf != nil {
			as, err := args()
			if err != nil {
				return tval{}, err
			}
			if len(as) != len(pf.Params) {
				return tval{}, fmt.Errorf("%s takes %d arguments", n.Fun, len(pf.Params))
			}
			var ts []Term
			for i, a := range as {
				if a.sort != e.so.of(pf.Params[i].Type()) {
					return tval{}, fmt.Errorf("argument %d of %s has sort %s", i+1, n.Fun, a.sort)
				}
				ts = append(ts, a.t)
			}
			rs := e.pureApp(pf, ts)
			if len(rs) != 1 {
				return tval{}, fmt.Errorf("pure function %s must have exactly one result to be used in a specification", n.Fun)
			}
			return e.mkT(rs[0], pf.Signature.Results().At(0).Type()), nil
		}
		// a function-valued parameter / local applied to arguments: the same deterministic function symbol the encoder uses
		if fv, err := e.specIdent(env, n.Fun); err == nil && fv.ty != nil {
			if pt, ok := fv.ty.Underlying().(*types.Pointer); ok {
				if _, isSig := pt.Elem().Underlying().(*types.Signature); isSig {
					// a captured variable holding a function: its current value
					if dv, err := e.specDeref(env, &SIdent{n.Fun}); err == nil {
						fv = dv
					}
				}
			}
			if sig, ok := fv.ty.Underlying().(*types.Signature); ok && sig.Results().Len() == 1 {
				as, err := args()
				if err != nil {
					return tval{}, err
				}
				sorts := []string{"Int"}
				ts := []Term{fv.t}
				for _, a := range as {
					sorts = append(sorts, a.sort)
					ts = append(ts, a.t)
				}
				rty := sig.Results().At(0).Type()
				rs := e.so.of(rty)
				fn := e.uf(fmt.Sprintf("dyn_%s_%d", clean(strings.Join(sorts, "_")+"_"+rs), 0), sorts, rs)
				return e.mkT(fmt.Sprintf("(%s %s)", fn, strings.Join(ts, " ")), rty), nil
			}
		}
		return tval{}, fmt.Errorf("unknown spec function %s", n.Fun)
	}
	if err := e.declareSpecFunc(f); err != nil {
		return tval{}, err
	}
	as, err := args()
	if err != nil {
		return tval{}, err
	}
	if len(as) != len(f.Params) {
		return tval{}, fmt.Errorf("spec function %s takes %d arguments, got %d", f.Name, len(f.Params), len(as))
	}
	sig := e.specSigs[f.Name]
	var ts []string
	for i, a := range as {
		if a.sort != sig.params[i] {
			return tval{}, fmt.Errorf("argument %d of %s has sort %s, expected %s", i+1, f.Name, a.sort, sig.params[i])
		}
		ts = append(ts, a.t)
	}
	t := "sp_" + f.Name
	if len(ts) > 0 {
		t = fmt.Sprintf("(sp_%s %s)", f.Name, strings.Join(ts, " "))
	}
	if f.Rec && !env.noUnfold {
		if err := e.unfoldRec(env, f, as, t); err != nil {
			return tval{}, err
		}
	}
	if f.Opaque && !env.noUnfold && !boundVarRe.MatchString(t) {
		// opaque function: its definition is revealed at ground occurrences only
		if err := e.unfoldRec(env, f, as, t); err != nil {
			return tval{}, err
		}
	}
	return tval{t, sig.retTy, sig.ret}, nil
}

type specSig struct {
	params []string
	ret    string
	retTy  types.Type
	decl   string   // declare-fun / define-fun text
	uses   []string // spec functions referenced by the body
}

type specAxiom struct {
	name  string
	text  string
	uses  []string
	lemma bool
}

func (e *enc) pkgByPath(path string) *types.Package {
	if p, ok := e.w.ByPath[path]; ok {
		return p.Types
	}
	return nil
}

// declareSpecFunc translates a spec function's signature (and body) once; the text goes to the script on demand.
func (e *enc) declareSpecFunc(f *SpecFunc) error {
	if e.specSigs == nil {
		e.specSigs = map[string]*specSig{}
	}
	if _, ok := e.specSigs[f.Name]; ok {
		return nil
	}
	pkg := e.pkgByPath(f.PkgPath)
	if pkg == nil {
		return fmt.Errorf("spec function %s: package %s is not loaded", f.Name, f.PkgPath)
	}
	sig := &specSig{}
	env := &specEnv{e: e, pkg: pkg, vars: map[string]tval{}, mem: map[string]Term{}}
	var binds []string
	for _, p := range f.Params {
		ty, err := e.resolveTy(pkg, p.Ty)
		if err != nil {
			return fmt.Errorf("spec function %s: %v", f.Name, err)
		}
		s := e.so.of(ty)
		sig.params = append(sig.params, s)
		env.vars[p.Name] = tval{"a_" + p.Name, ty, s}
		binds = append(binds, fmt.Sprintf("(a_%s %s)", p.Name, s))
	}
	rty, err := e.resolveTy(pkg, f.Ret)
	if err != nil {
		return fmt.Errorf("spec function %s: %v", f.Name, err)
	}
	sig.ret, sig.retTy = e.so.of(rty), rty
	e.specSigs[f.Name] = sig
	if f.Body == nil || f.Rec || f.Opaque {
		sig.decl = fmt.Sprintf("(declare-fun sp_%s (%s) %s)", f.Name, strings.Join(sig.params, " "), sig.ret)
		return nil
	}
	body, err := e.specX(env, f.Body)
	if err != nil {
		delete(e.specSigs, f.Name)
		return fmt.Errorf("spec function %s: %v", f.Name, err)
	}
	if body.sort != sig.ret {
		return fmt.Errorf("spec function %s: body has sort %s, declared %s", f.Name, body.sort, sig.ret)
	}
	sig.decl = fmt.Sprintf("(define-fun sp_%s (%s) %s %s)", f.Name, strings.Join(binds, " "), sig.ret, body.t)
	return nil
}

// translateAxioms translates every axiom whose spec functions can be declared (done once per encoder).
func (e *enc) translateAxioms() {
	if e.axiomsDone {
		return
	}
	e.axiomsDone = true
	for _, ax := range e.ss.Axioms {
		pkg := e.pkgByPath(ax.PkgPath)
		if pkg == nil {
			continue
		}
		env := &specEnv{e: e, pkg: pkg, vars: map[string]tval{}, mem: map[string]Term{}, noUnfold: true}
		t, err := e.specBool(env, ax.E)
		if err != nil {
			e.cerrs = append(e.cerrs, fmt.Sprintf("CONTRACT-ERROR axiom %s: %v", ax.Name, err))
			continue
		}
		e.axioms = append(e.axioms, specAxiom{name: ax.Name, text: t, lemma: ax.Lemma})
	}
}

// expandQuant (finder mode only): a quantifier over ints becomes a finite conjunction / disjunction over a small range.
// This is a heuristic used to obtain candidate inputs; every candidate is confirmed by running the real code.
func (e *enc) expandQuant(env *specEnv, n *SQuant) (tval, bool, error) {
	for _, v := range n.Vars {
		if v.Ty != nil && !(v.Ty.Kind == "name" && v.Ty.Name == "int") {
			return tval{}, false, nil
		}
	}
	if len(n.Vars) > 2 {
		return tval{}, false, nil
	}
	var parts []string
	var rec func(i int, env2 *specEnv) error
	rec = func(i int, env2 *specEnv) error {
		if i == len(n.Vars) {
			b, err := e.specBool(env2, n.Body)
			if err != nil {
				return err
			}
			parts = append(parts, b)
			return nil
		}
		for k := -1; k <= replayMaxElems; k++ {
			env3 := env2.clone()
			env3.vars[n.Vars[i].Name] = tval{smtInt(int64(k)), intTy, "Int"}
			if err := rec(i+1, env3); err != nil {
				return err
			}
		}
		return nil
	}
	if err := rec(0, env); err != nil {
		return tval{}, true, err
	}
	op := "and"
	if !n.Forall {
		op = "or"
	}
	return tval{"(" + op + " " + strings.Join(parts, " ") + ")", boolTy, "Bool"}, true, nil
}

// unfoldRec: one unfolding of a recursive spec function at this occurrence, added as a (definitional) assumption:
//   F(args) == body[args]          (ground occurrence)
//   forall bound :: {F(args)} F(args) == body[args]   (occurrence under quantifiers)
// Inner recursive calls are not unfolded again. Sound because checkRec guarantees the definition is well founded.
func (e *enc) unfoldRec(env *specEnv, f *SpecFunc, as []tval, app Term) error {
	if e.unfolded == nil {
		e.unfolded = map[string]bool{}
	}
	if e.unfolded[app] {
		return nil
	}
	e.unfolded[app] = true
	pkg := e.pkgByPath(f.PkgPath)
	env2 := &specEnv{e: e, pkg: pkg, vars: map[string]tval{}, mem: map[string]Term{}, noUnfold: f.Rec, bound: env.bound}
	for i, p := range f.Params {
		env2.vars[p.Name] = as[i]
	}
	body, err := e.specX(env2, f.Body)
	if err != nil {
		return fmt.Errorf("unfolding %s: %v", f.Name, err)
	}
	eq := fmt.Sprintf("(= %s %s)", app, body.t)
	var binds []string
	for _, name := range sortedKeys(env.bound) {
		if containsIdent(app, name) || containsIdent(body.t, name) {
			binds = append(binds, fmt.Sprintf("(%s %s)", name, env.bound[name]))
		}
	}
	if len(binds) > 0 {
		eq = fmt.Sprintf("(forall (%s) (! %s :pattern (%s)))", strings.Join(binds, " "), eq, app)
	}
	if boundVarRe.MatchString(strings.ReplaceAll(eq, "q_", "Q_")) && len(binds) == 0 {
		// occurrence inside a spec function body / axiom (parameters a_*): no lemma here, it is emitted where the function is applied
		return nil
	}
	if len(binds) == 0 && boundVarRe.MatchString(eq) {
		return nil
	}
	e.assume(eq)
	return nil
}

func containsIdent(t, name string) bool {
	i := 0
	for {
		j := strings.Index(t[i:], name)
		if j < 0 {
			return false
		}
		j += i
		end := j + len(name)
		okL := j == 0 || !isIdentChar(t[j-1])
		okR := end >= len(t) || !isIdentChar(t[end])
		if okL && okR {
			return true
		}
		i = end
	}
}

func isIdentChar(c byte) bool {
	return c == '_' || c >= '0' && c <= '9' || c >= 'a' && c <= 'z' || c >= 'A' && c <= 'Z' || c == '.' || c == '!'
}

func (e *enc) findPure(env *specEnv, name string) *ssa.Function {
	pkgName, fn := "", name
	if i := strings.Index(name, "."); i >= 0 {
		pkgName, fn = name[:i], name[i+1:]
	}
	for key, ct := range e.ss.Contracts {
		if !ct.Pure || ct.Key != fn {
			continue
		}
		f, ok := e.w.Funcs[key]
		if !ok {
			continue
		}
		if pkgName == "" {
			if env.pkg != nil && f.Pkg.Pkg == env.pkg {
				return f
			}
			continue
		}
		if f.Pkg.Pkg.Name() == pkgName {
			return f
		}
	}
	return nil
}
