package main

import (
	"fmt"
	"go/types"
	"strings"

	"golang.org/x/tools/go/ssa"
)

// Tree nodes (ANTLR parse trees, tokens, go/ast nodes) are ids (Int, 0 = nil) with uninterpreted structure.
// Methods on them are deterministic functions of the receiver id and the arguments; the grammar-shape
// contracts (shape.go) constrain those functions.

func isNodeMethod(fn *ssa.Function) bool {
	if fn.Pkg == nil {
		return false
	}
	p := fn.Pkg.Pkg.Path()
	return strings.Contains(p, "antlr4/runtime/Go/antlr") || strings.Contains(p, modPath+"/languages/") || p == "go/ast" || p == "go/token"
}

func nodeTypeName(t types.Type) string {
	if p, ok := t.(*types.Pointer); ok {
		t = p.Elem()
	}
	if n, ok := t.(*types.Named); ok {
		return n.Obj().Name()
	}
	return clean(t.String())
}

func (e *enc) nodeFn(method string, c *ssa.CallCommon, recvIsArg bool) (string, []string) {
	var sorts []string
	if !recvIsArg {
		sorts = append(sorts, "Int")
	}
	for _, a := range c.Args {
		sorts = append(sorts, e.so.of(a.Type()))
	}
	return method, sorts
}

// nodeCall: statically dispatched method / function of the node libraries
func (e *enc) nodeCall(x *ssa.Call, callee *ssa.Function, args []Term) {
	c := x.Common()
	name := callee.Name()
	// tree walks call back into the repository: ast.Inspect its closure, the ANTLR walker the listener's Enter/Exit methods
	if callee.Pkg != nil && callee.Pkg.Pkg.Path() == "go/ast" && (name == "Inspect" || name == "Walk") {
		for _, a := range c.Args {
			v := a
			if ct, ok := v.(*ssa.ChangeType); ok {
				v = ct.X
			}
			if mc, ok := v.(*ssa.MakeClosure); ok {
				e.havocClosureEffects(mc)
			}
		}
	}
	if name == "Walk" && callee.Signature.Recv() != nil && strings.Contains(callee.Signature.Recv().Type().String(), "ParseTreeWalker") && len(c.Args) >= 2 {
		e.havocListenerEffects(c.Args[1])
	}
	if callee.Signature.Recv() != nil {
		recvT := nodeTypeName(callee.Signature.Recv().Type())
		// receiver nil-ness: a method on a nil *XContext dereferences it (conservative: required non-nil)
		if len(args) > 0 {
			if _, isPtr := callee.Signature.Recv().Type().(*types.Pointer); isPtr {
				e.safety("nil", fmt.Sprintf("(not (= %s 0))", args[0]), x.Pos(), x.String())
			}
		}
		if h := e.shapeCall(x, recvT, name, args); h {
			return
		}
		e.nodeUF(x, "nm_"+name, c, args, callee.Signature)
		return
	}
	e.nodeUF(x, "nf_"+clean(callee.Pkg.Pkg.Name())+"_"+name, c, args, callee.Signature)
	if strings.HasPrefix(name, "New") && callee.Signature.Results().Len() == 1 {
		// constructors of the runtime / generated code return a fresh, non-nil object
		if t, ok := e.fr.val[x]; ok && e.so.of(callee.Signature.Results().At(0).Type()) == "Int" {
			e.assume(fmt.Sprintf("(not (= %s 0))", t))
		}
	}
}

func (e *enc) nodeUF(x *ssa.Call, fname string, c *ssa.CallCommon, args []Term, sig *types.Signature) {
	var sorts []string
	for _, a := range c.Args {
		sorts = append(sorts, e.so.of(a.Type()))
	}
	var ts []Term
	for i := 0; i < sig.Results().Len(); i++ {
		rty := sig.Results().At(i).Type()
		rs := e.so.of(rty)
		f := e.uf(fmt.Sprintf("%s_%s_%d", fname, clean(strings.Join(sorts, "_")), i), sorts, rs)
		t := f
		if len(args) > 0 {
			t = fmt.Sprintf("(%s %s)", f, strings.Join(args, " "))
		}
		t = e.define("n_"+fname, rs, t)
		for _, cnd := range e.wfConds(t, rty, 1) {
			e.assume(cnd)
		}
		e.nodeListFacts(t, rty)
		ts = append(ts, t)
	}
	e.setResult(x, sig, ts)
}

// nodeListFacts: lists of nodes/tokens returned by the parser runtime contain no nil element (assumed runtime contract)
func (e *enc) nodeListFacts(t Term, rty types.Type) {
	if st, ok := rty.Underlying().(*types.Slice); ok && isNodeType(st.Elem()) && e.so.of(st.Elem()) == "Int" {
		s := e.so.of(rty)
		e.assumps["lists returned by the ANTLR runtime / generated parser (GetAllTokens, GetChildren, AllX()) contain no nil element"] = true
		e.assume(fmt.Sprintf("(forall ((i Int)) (! (=> (and (<= 0 i) (< i (len_%s %s))) (not (= (select (arr_%s %s) i) 0))) :pattern ((select (arr_%s %s) i))))", s, t, s, t, s, t))
	}
}

// nodeInvoke: interface method call on a node-typed receiver
func (e *enc) nodeInvoke(x *ssa.Call, recv Term) {
	c := x.Common()
	e.safety("nil", fmt.Sprintf("(not (= %s 0))", recv), x.Pos(), x.String())
	args := []Term{recv}
	for _, a := range c.Args {
		args = append(args, e.value(a))
	}
	if h := e.shapeCall(x, nodeTypeName(c.Value.Type()), c.Method.Name(), args); h {
		return
	}
	sorts := []string{"Int"}
	for _, a := range c.Args {
		sorts = append(sorts, e.so.of(a.Type()))
	}
	sig := c.Signature()
	var ts []Term
	for i := 0; i < sig.Results().Len(); i++ {
		rty := sig.Results().At(i).Type()
		rs := e.so.of(rty)
		f := e.uf(fmt.Sprintf("nm_%s_%s_%d", c.Method.Name(), clean(strings.Join(sorts, "_")), i), sorts, rs)
		t := e.define("n_"+c.Method.Name(), rs, fmt.Sprintf("(%s %s)", f, strings.Join(args, " ")))
		for _, cnd := range e.wfConds(t, rty, 1) {
			e.assume(cnd)
		}
		e.nodeListFacts(t, rty)
		ts = append(ts, t)
	}
	e.setResult(x, sig, ts)
}

// nodeTypeAssert: x.(T) on tree nodes: dynamic type = kind(x)
func (e *enc) nodeTypeAssert(x *ssa.TypeAssert, v Term) {
	fr := e.fr
	kind := e.uf("kind", []string{"Int"}, "Int")
	var ok Term
	if isIface(x.AssertedType) {
		// assertion to an interface type: holds iff the node's kind implements it; known sets come from the shape tables
		ok = e.kindImplements(v, x.AssertedType)
	} else {
		ok = fmt.Sprintf("(and (not (= %s 0)) (= (%s %s) %d))", v, kind, v, e.kindTag(nodeTypeName(x.AssertedType)))
	}
	if x.CommaOk {
		okT := e.define("taok", "Bool", ok)
		fr.tuples[x] = []Term{e.define("ta", "Int", fmt.Sprintf("(ite %s %s 0)", okT, v)), okT}
		return
	}
	e.safety("tassert", ok, x.Pos(), x.String())
	fr.val[x] = v
}

func (e *enc) kindTag(name string) int {
	if e.kinds == nil {
		e.kinds = map[string]int{}
	}
	if n, ok := e.kinds[name]; ok {
		return n
	}
	n := len(e.kinds) + 1
	e.kinds[name] = n
	return n
}

// kindImplements: without shape tables an interface assertion on a non-nil node is left undetermined
func (e *enc) kindImplements(v Term, t types.Type) Term {
	name := nodeTypeName(t)
	switch name {
	case "Tree", "SyntaxTree", "ParseTree":
		// every node of a parse tree (rule contexts, terminal nodes) implements these runtime interfaces
		e.assumps["antlr runtime: rule contexts and terminal nodes implement Tree, SyntaxTree and ParseTree"] = true
		return fmt.Sprintf("(not (= %s 0))", v)
	case "RuleNode", "RuleContext", "ParserRuleContext":
		return fmt.Sprintf("(and (not (= %s 0)) (not (= (kind %s) %d)))", v, v, e.kindTag(terminalKind))
	case "TerminalNode":
		return fmt.Sprintf("(and (not (= %s 0)) (= (kind %s) %d))", v, v, e.kindTag(terminalKind))
	}
	if n, ok := t.(*types.Named); ok && n.Obj().Pkg() != nil && strings.HasPrefix(name, "I") && strings.HasSuffix(name, "Context") {
		if db := e.w.shapeSet().forPkg(n.Obj().Pkg().Path()); db != nil {
			rule := strings.TrimSuffix(name[1:], "Context")
			rule = strings.ToLower(rule[:1]) + rule[1:]
			if ks, ok := db.kinds[rule]; ok {
				return fmt.Sprintf("(and (not (= %s 0)) %s)", v, e.kindIn(v, ks))
			}
		}
	}
	f := e.uf("implements_"+clean(name), []string{"Int"}, "Bool")
	return fmt.Sprintf("(and (not (= %s 0)) (%s (kind %s)))", v, f, v)
}

// shapeCall: hook for grammar-shape contracts (shape.go); false = no contract known
func (e *enc) shapeCall(x *ssa.Call, recvType, method string, args []Term) bool {
	return e.w.shapeSet().call(e, x, recvType, method, args)
}

// havocListenerEffects: after ParseTreeWalker.Walk(listener, tree) everything the listener's methods can write is unknown;
// the state invariants of the listener's package hold (every callback is verified to preserve them; that the walker calls
// nothing but the listener's callbacks is the walker assumption).
func (e *enc) havocListenerEffects(lv ssa.Value) {
	for d := 0; d < 4; d++ {
		switch x := lv.(type) {
		case *ssa.MakeInterface:
			lv = x.X
			continue
		case *ssa.ChangeInterface:
			lv = x.X
			continue
		}
		break
	}
	t := lv.Type()
	if p, ok := t.(*types.Pointer); ok {
		t = p.Elem()
	}
	n, ok := t.(*types.Named)
	if !ok || n.Obj().Pkg() == nil || !strings.HasPrefix(n.Obj().Pkg().Path(), modPath) {
		// the listener's type is not known here: all package state of the repository and all heaps may have changed
		for _, k := range sortedKeys(e.mem) {
			if strings.HasPrefix(k, "G:") || strings.HasPrefix(k, "H:") {
				e.havocKey(k)
			}
		}
		return
	}
	heap := false
	for _, fn := range e.w.allRepoFuncs() {
		r := fn.Signature.Recv()
		if r == nil || fn.Blocks == nil {
			continue
		}
		rt := r.Type()
		if p, ok := rt.(*types.Pointer); ok {
			rt = p.Elem()
		}
		if rn, ok := rt.(*types.Named); !ok || rn.Obj() != n.Obj() {
			continue
		}
		if !strings.HasPrefix(fn.Name(), "Enter") && !strings.HasPrefix(fn.Name(), "Exit") && !strings.HasPrefix(fn.Name(), "Visit") {
			continue
		}
		fa := e.w.frameOf(fn)
		for g := range fa.writes {
			e.havocKey(e.ensureGlobal(g))
		}
		if fa.fs {
			e.havocKey(e.fsMem())
		}
		if fa.heap {
			heap = true
		}
	}
	if heap {
		for _, k := range sortedKeys(e.mem) {
			if strings.HasPrefix(k, "H:") {
				e.havocKey(k)
			}
		}
		if l, ok := e.fr.loc[lv]; ok {
			e.havocLoc(l)
		}
	}
	if e.ss != nil {
		env := stateOnly(e.fnEnv(e.fr, e.mem))
		if pk := e.pkgByPath(n.Obj().Pkg().Path()); pk != nil {
			env.pkg = pk
			for _, iv := range e.ss.Invariants[n.Obj().Pkg().Path()] {
				if g, err := e.specBool(env, iv.E); err == nil {
					e.assumeAt(g)
				}
			}
		}
	}
	e.assumps["ParseTreeWalker.Walk calls nothing but the listener's Enter/Exit/Visit methods: afterwards what these can write is unknown and the listener's state invariants hold"] = true
}
