package main

import (
	"bytes"
	"context"
	"encoding/json"
	"fmt"
	"go/types"
	"os"
	"os/exec"
	"path/filepath"
	"regexp"
	"sort"
	"strconv"
	"strings"
	"time"

	"golang.org/x/tools/go/ssa"
)

// Replay: solver model -> concrete Go inputs -> the real function run through an in-package test injected
// with `go test -overlay` (nothing is written into /repo) -> observed behaviour compared with the model.

const replayMaxElems = 4

type leaf struct {
	path string
	term Term
	kind string // int bool string
}

type mapInput struct {
	path string
	term Term
	sort string
	mt   *types.Map
}

type flattener struct {
	e      *enc
	leaves []leaf
	ok     bool
	why    string
	maps   []mapInput
}

// mapLeaves: leaves for the entries of the map inputs at the given candidate keys
func (f *flattener) mapLeaves(keys []string) []leaf {
	sub := &flattener{e: f.e, ok: true}
	for _, m := range f.maps {
		for i, k := range keys {
			kt := smtStr(k)
			p := fmt.Sprintf("%s{%d}", m.path, i)
			sub.add(p+".key", kt, "string")
			sub.add(p+".in", fmt.Sprintf("(select (dom_%s %s) %s)", m.sort, m.term, kt), "bool")
			sub.flat(fmt.Sprintf("(select (val_%s %s) %s)", m.sort, m.term, kt), m.mt.Elem(), p+".val", 2)
		}
	}
	return sub.leaves
}

func (f *flattener) add(path string, term Term, kind string) {
	f.leaves = append(f.leaves, leaf{path, term, kind})
}

func (f *flattener) flat(term Term, ty types.Type, path string, depth int) {
	if depth > 4 {
		return
	}
	e := f.e
	switch u := ty.Underlying().(type) {
	case *types.Basic:
		switch {
		case u.Info()&types.IsInteger != 0:
			f.add(path, term, "int")
		case u.Info()&types.IsBoolean != 0:
			f.add(path, term, "bool")
		case u.Info()&types.IsString != 0:
			f.add(path, term, "string")
		}
	case *types.Slice:
		s := e.so.of(ty)
		f.add(path+".len", fmt.Sprintf("(len_%s %s)", s, term), "int")
		f.add(path+".nil", fmt.Sprintf("(nil_%s %s)", s, term), "bool")
		for i := 0; i < replayMaxElems; i++ {
			f.flat(fmt.Sprintf("(select (arr_%s %s) %d)", s, term, i), u.Elem(), fmt.Sprintf("%s[%d]", path, i), depth+1)
		}
	case *types.Struct:
		if isNodeType(ty) {
			return
		}
		s := e.so.of(ty)
		fs := e.so.fields[s]
		for i := 0; i < u.NumFields() && i < len(fs); i++ {
			if fs[i].opaque {
				continue
			}
			f.flat(fmt.Sprintf("(%s.%s %s)", s, fs[i].name, term), u.Field(i).Type(), path+"."+u.Field(i).Name(), depth+1)
		}
	case *types.Pointer:
		if isNodeType(ty) {
			return
		}
		f.add(path+".ref", term, "int")
		if depth == 0 {
			key := "H:" + e.so.of(u.Elem())
			if h, ok := e.init[key]; ok {
				f.flat(fmt.Sprintf("(select %s %s)", h, term), u.Elem(), path+".*", depth+1)
			}
		}
	case *types.Map:
		// keys cannot be enumerated from get-value: the entries are read for candidate keys (strings occurring in the model)
		s := e.so.of(ty)
		f.add(path+".nil", fmt.Sprintf("(nil_%s %s)", s, term), "bool")
		if b, ok := u.Key().Underlying().(*types.Basic); ok && b.Info()&types.IsString != 0 && depth <= 1 {
			f.maps = append(f.maps, mapInput{path: path, term: term, sort: s, mt: u})
		} else {
			f.ok = false
			f.why = "map-typed input " + path
		}
	case *types.Interface:
		// tokens: text and line through the node functions (used by the todo scan)
		if strings.HasSuffix(ty.String(), "antlr/v4.Token") {
			f.add(path+".text", fmt.Sprintf("(nm_GetText_Int_0 %s)", term), "string")
			f.add(path+".line", fmt.Sprintf("(nm_GetLine_Int_0 %s)", term), "int")
			return
		}
		if depth > 0 {
			return // an interface-typed field inside a struct is left nil in the replayed input
		}
		f.ok = false
		f.why = "interface-typed input " + path
	default:
		f.ok = false
		f.why = fmt.Sprintf("input %s of type %s", path, ty)
	}
}

// getValues runs one solver on the obligation script extended with get-value for the leaves.
func getValues(e *enc, o *Obligation, leaves []leaf, dir string, pin map[string]string, block []map[string]string) (map[string]string, string, error) {
	// only ask for terms whose node functions are declared in this obligation's script prefix
	probe := e.script(o, nil)
	var kept []leaf
	for _, l := range leaves {
		ok := true
		for _, m := range nmNameRe.FindAllString(l.term, -1) {
			if !strings.Contains(probe, "("+m+" ") {
				ok = false
			}
		}
		if ok {
			kept = append(kept, l)
		}
	}
	leaves = kept
	var terms []string
	for _, l := range leaves {
		terms = append(terms, l.term)
	}
	txt := e.script(o, terms)
	if pin != nil {
		// pin the inputs to a candidate model: the query becomes (nearly) ground
		var pins strings.Builder
		for _, l := range leaves {
			if v, ok := pin[l.path]; ok && strings.HasPrefix(l.path, "in.") {
				pins.WriteString(fmt.Sprintf("(assert (= %s %s))\n", l.term, v))
			}
		}
		txt = strings.Replace(txt, "(check-sat)\n", pins.String()+"(check-sat)\n", 1)
	}
	if len(block) > 0 {
		var bl strings.Builder
		for _, b := range block {
			var eqs []string
			for _, l := range leaves {
				if v, ok := b[l.path]; ok && pinnable(l.path, b) && !strings.HasSuffix(l.path, ".nil") {
					eqs = append(eqs, fmt.Sprintf("(= %s %s)", l.term, v))
				}
			}
			if len(eqs) > 0 {
				bl.WriteString("(assert (not (and " + strings.Join(eqs, " ") + ")))\n")
			}
		}
		txt = strings.Replace(txt, "(check-sat)\n", bl.String()+"(check-sat)\n", 1)
	}
	if true {
		// candidate inputs are kept small (they must be written out as Go literals)
		var bounds strings.Builder
		for _, l := range leaves {
			if strings.HasSuffix(l.path, ".len") && strings.HasPrefix(l.path, "in.") {
				bounds.WriteString(fmt.Sprintf("(assert (and (<= 0 %s) (<= %s %d)))\n", l.term, l.term, replayMaxElems))
			}
		}
		txt = strings.Replace(txt, "(check-sat)\n", bounds.String()+"(check-sat)\n", 1)
	}
	file := filepath.Join(dir, clean(o.Name)+".model.smt2")
	if e.finder {
		file = filepath.Join(dir, clean(o.Name)+".finder.smt2")
	}
	if err := os.WriteFile(file, []byte(txt), 0644); err != nil {
		return nil, "", err
	}
	for _, argv := range [][]string{{"z3-new", "-T:8", file}, {"cvc5", "--tlimit=8000", "--strings-exp", "--produce-models", file}, {"z3", "-T:8", file}} {
		if !replayDeadline.IsZero() && time.Now().After(replayDeadline) {
			break
		}
		ctx, cancel := context.WithTimeout(context.Background(), 10*time.Second)
		out, _ := exec.CommandContext(ctx, argv[0], argv[1:]...).CombinedOutput()
		cancel()
		s := string(out)
		first := strings.TrimSpace(strings.SplitN(s, "\n", 2)[0])
		if first != "sat" && !(first == "unknown" && pin == nil) {
			continue
		}
		if strings.Contains(s, "(error") {
			continue
		}
		idx := strings.Index(s, "(")
		if idx < 0 {
			continue
		}
		sx, err := parseSexp(s[idx:])
		if err != nil || sx == nil {
			continue
		}
		vals := map[string]string{}
		if len(sx.list) != len(leaves) {
			continue
		}
		for i, pair := range sx.list {
			if len(pair.list) != 2 {
				continue
			}
			vals[leaves[i].path] = pair.list[1].text()
		}
		if first == "unknown" {
			// candidate model only: confirm it with the inputs pinned
			keep := map[string]string{}
			for k, v := range vals {
				if strings.HasPrefix(k, "in.") && !strings.Contains(v, "(") || strings.HasPrefix(v, "(- ") {
					keep[k] = v
				}
			}
			// elements beyond the length are irrelevant
			if v2, sv, err := getValues(e, o, leaves, dir, keep, block); err == nil {
				return v2, sv + " (candidate from " + argv[0] + " confirmed with pinned inputs)", nil
			}
			continue
		}
		return vals, argv[0], nil
	}
	return nil, "", fmt.Errorf("no model values obtained")
}

// ---------- minimal s-expression reader

type sexp struct {
	atom   string
	list   []*sexp
	isList bool
}

func (s *sexp) text() string {
	if !s.isList {
		return s.atom
	}
	var parts []string
	for _, c := range s.list {
		parts = append(parts, c.text())
	}
	return "(" + strings.Join(parts, " ") + ")"
}

func parseSexp(s string) (*sexp, error) {
	p := 0
	var parse func() (*sexp, error)
	skip := func() {
		for p < len(s) && (s[p] == ' ' || s[p] == '\n' || s[p] == '\t' || s[p] == '\r') {
			p++
		}
	}
	parse = func() (*sexp, error) {
		skip()
		if p >= len(s) {
			return nil, fmt.Errorf("eof")
		}
		if s[p] == '(' {
			p++
			n := &sexp{isList: true}
			for {
				skip()
				if p >= len(s) {
					return nil, fmt.Errorf("eof in list")
				}
				if s[p] == ')' {
					p++
					return n, nil
				}
				c, err := parse()
				if err != nil {
					return nil, err
				}
				n.list = append(n.list, c)
			}
		}
		if s[p] == '"' {
			q := p + 1
			for q < len(s) {
				if s[q] == '"' {
					if q+1 < len(s) && s[q+1] == '"' {
						q += 2
						continue
					}
					break
				}
				q++
			}
			a := s[p : q+1]
			p = q + 1
			return &sexp{atom: a}, nil
		}
		q := p
		for q < len(s) && !strings.ContainsRune(" \n\t\r()", rune(s[q])) {
			q++
		}
		a := s[p:q]
		p = q
		return &sexp{atom: a}, nil
	}
	return parse()
}

func smtIntVal(s string) (int64, bool) {
	s = strings.TrimSpace(s)
	if strings.HasPrefix(s, "(- ") {
		v, err := strconv.ParseInt(strings.TrimSuffix(strings.TrimPrefix(s, "(- "), ")"), 10, 64)
		return -v, err == nil
	}
	v, err := strconv.ParseInt(s, 10, 64)
	return v, err == nil
}

func smtStrVal(s string) (string, bool) {
	if len(s) < 2 || s[0] != '"' {
		return "", false
	}
	body := s[1 : len(s)-1]
	body = strings.ReplaceAll(body, `""`, `"`)
	var out []byte
	for i := 0; i < len(body); i++ {
		if body[i] == '\\' && i+2 < len(body) && body[i+1] == 'u' && body[i+2] == '{' {
			j := strings.IndexByte(body[i:], '}')
			if j > 0 {
				v, err := strconv.ParseInt(body[i+3:i+j], 16, 32)
				if err == nil {
					if v <= 0xff {
						out = append(out, byte(v))
					} else {
						out = append(out, []byte(string(rune(v)))...)
					}
					i += j
					continue
				}
			}
		}
		if body[i] == '\\' && i+5 < len(body) && body[i+1] == 'u' {
			v, err := strconv.ParseInt(body[i+2:i+6], 16, 32)
			if err == nil {
				out = append(out, byte(v))
				i += 5
				continue
			}
		}
		out = append(out, body[i])
	}
	return string(out), true
}

// goLiteral builds Go source for the value of an input of type ty from the model leaves.
func goLiteral(vals map[string]string, ty types.Type, path string, qual types.Qualifier, depth int) (string, bool) {
	switch u := ty.Underlying().(type) {
	case *types.Basic:
		v, ok := vals[path]
		if !ok {
			return zeroLit(ty, qual), true
		}
		switch {
		case u.Info()&types.IsInteger != 0:
			i, ok := smtIntVal(v)
			if !ok {
				return "", false
			}
			return fmt.Sprintf("%s(%d)", types.TypeString(ty, qual), i), true
		case u.Info()&types.IsBoolean != 0:
			return v, v == "true" || v == "false"
		case u.Info()&types.IsString != 0:
			s, ok := smtStrVal(v)
			if !ok {
				return "", false
			}
			return fmt.Sprintf("%s(%s)", types.TypeString(ty, qual), strconv.Quote(s)), true
		}
	case *types.Slice:
		n, ok := smtIntVal(vals[path+".len"])
		if !ok {
			return "nil", true
		}
		if vals[path+".nil"] == "true" || (n == 0 && vals[path+".nil"] != "false") {
			return fmt.Sprintf("%s(nil)", types.TypeString(ty, qual)), true
		}
		if n > replayMaxElems || n < 0 {
			return "", false
		}
		var parts []string
		for i := int64(0); i < n; i++ {
			l, ok := goLiteral(vals, u.Elem(), fmt.Sprintf("%s[%d]", path, i), qual, depth+1)
			if !ok {
				return "", false
			}
			parts = append(parts, l)
		}
		return fmt.Sprintf("%s{%s}", types.TypeString(ty, qual), strings.Join(parts, ", ")), true
	case *types.Struct:
		var parts []string
		for i := 0; i < u.NumFields(); i++ {
			f := u.Field(i)
			has := false
			for k := range vals {
				if strings.HasPrefix(k, path+"."+f.Name()) {
					has = true
					break
				}
			}
			if !has {
				continue
			}
			l, ok := goLiteral(vals, f.Type(), path+"."+f.Name(), qual, depth+1)
			if !ok {
				return "", false
			}
			parts = append(parts, f.Name()+": "+l)
		}
		return fmt.Sprintf("%s{%s}", types.TypeString(ty, qual), strings.Join(parts, ", ")), true
	case *types.Map:
		if vals[path+".nil"] == "true" {
			return fmt.Sprintf("%s(nil)", types.TypeString(ty, qual)), true
		}
		var parts []string
		seen := map[string]bool{}
		for i := 0; ; i++ {
			p := fmt.Sprintf("%s{%d}", path, i)
			kv, ok := vals[p+".key"]
			if !ok {
				break
			}
			if vals[p+".in"] != "true" || seen[kv] {
				continue
			}
			seen[kv] = true
			ks, _ := smtStrVal(kv)
			l, ok := goLiteral(vals, u.Elem(), p+".val", qual, depth+1)
			if !ok {
				return "", false
			}
			parts = append(parts, strconv.Quote(ks)+": "+l)
		}
		return fmt.Sprintf("%s{%s}", types.TypeString(ty, qual), strings.Join(parts, ", ")), true
	case *types.Pointer:
		r, _ := smtIntVal(vals[path+".ref"])
		if r == 0 {
			return "nil", true
		}
		l, ok := goLiteral(vals, u.Elem(), path+".*", qual, depth+1)
		if !ok {
			return "", false
		}
		return "verifPtr(" + l + ")", true
	case *types.Interface:
		if strings.HasSuffix(ty.String(), "antlr/v4.Token") {
			txt, _ := smtStrVal(vals[path+".text"])
			line, _ := smtIntVal(vals[path+".line"])
			return fmt.Sprintf("verifToken(%s, %d)", strconv.Quote(txt), line), true
		}
	}
	return "", false
}

func zeroLit(ty types.Type, qual types.Qualifier) string {
	return fmt.Sprintf("*new(%s)", types.TypeString(ty, qual))
}

const replayCandidates = 6

var replayDeadline time.Time
var groundSeq int

// replayInputs: the inputs that exist at the obligation's program point; package-level variables only when they are plain data
func replayInputs(e *enc, o *Obligation) []modelVar {
	var out []modelVar
	for _, in := range e.inputs {
		if in.NDecl > o.NDecl {
			continue
		}
		if strings.Contains(in.Name, ".") {
			switch in.Ty.Underlying().(type) {
			case *types.Basic, *types.Slice, *types.Struct:
			default:
				continue
			}
		}
		out = append(out, in)
	}
	return out
}

func tryReplay(w *World, r *FuncResult, o *Obligation, dir string, rep *Replay) {
	if !replayDeadline.IsZero() && time.Now().After(replayDeadline) {
		rep.Note = "replay budget of this run exhausted: not replayed"
		return
	}
	e := r.Enc
	fn := r.Fn
	if fn == nil || fn.Pkg == nil || fn.Parent() != nil {
		rep.Note = "closure or synthetic function: not replayed"
		return
	}
	if strings.HasPrefix(o.Class, "inv-") || strings.HasPrefix(o.Class, "dec") || o.Class == "frame" || strings.HasPrefix(o.Class, "reset") || strings.HasPrefix(o.Class, "commute") {
		rep.Note = "the solver's model is a counterexample to induction / a relational state, not an input of the function: not replayed"
		return
	}
	fl := &flattener{e: e, ok: true}
	for _, in := range replayInputs(e, o) {
		fl.flat(in.Term, in.Ty, "in."+in.Name, 0)
	}
	if !fl.ok {
		rep.Note = "inputs not representable as Go literals: " + fl.why
		return
	}
	// candidate inputs: models of the failed obligation (direct, then bounded finder), several of them by blocking
	var cands []map[string]string
	how := ""
	var curFlat *flattener
	collect := func(enc2 *enc, o2 *Obligation, leaves []leaf) {
		var block []map[string]string
		for len(cands) < replayCandidates {
			vals, solver, err := getValues(enc2, o2, leaves, dir, nil, block)
			if err != nil {
				return
			}
			if cur := curFlat; cur != nil && len(cur.maps) > 0 {
				// entries of map inputs at candidate keys: every string of the model so far, in rounds
				all := append([]leaf{}, leaves...)
				for round := 0; round < 3; round++ {
					keyset := map[string]bool{}
					for p, v := range vals {
						if strings.HasPrefix(v, "\"") && !strings.HasSuffix(p, ".key") {
							if sv, ok := smtStrVal(v); ok {
								keyset[sv] = true
							}
						}
					}
					var keys []string
					for k := range keyset {
						keys = append(keys, k)
					}
					sort.Strings(keys)
					if len(keys) > 12 {
						keys = keys[:12]
					}
					ml := cur.mapLeaves(keys)
					pins := map[string]string{}
					for k, v := range vals {
						if strings.HasPrefix(k, "in.") && pinnable(k, vals) && !strings.Contains(k, "{") {
							pins[k] = v
						}
					}
					v2, _, err := getValues(enc2, o2, append(append([]leaf{}, all...), ml...), dir, pins, nil)
					if err != nil {
						break
					}
					n0 := len(vals)
					for k, v := range v2 {
						vals[k] = v
					}
					if len(vals) == n0 && round > 0 {
						break
					}
				}
			}
			if how == "" {
				how = solver
				if enc2.finder {
					how += fmt.Sprintf(", bounded finder (spec quantifiers expanded over -1..%d, input slices of length <= %d)", replayMaxElems, replayMaxElems)
				}
			}
			cands = append(cands, vals)
			block = append(block, vals)
		}
	}
	curFlat = fl
	collect(e, o, fl.leaves)
	if len(cands) < replayCandidates && r.ss != nil {
		r2 := verifyFuncMode(w, r.ss, fn, e.sweep, true)
		for _, o2 := range r2.Obls {
			if o2.Name == o.Name {
				fl2 := &flattener{e: r2.Enc, ok: true}
				for _, in := range replayInputs(r2.Enc, o2) {
					fl2.flat(in.Term, in.Ty, "in."+in.Name, 0)
				}
				curFlat = fl2
				collect(r2.Enc, o2, fl2.leaves)
			}
		}
	}
	if len(cands) == 0 {
		rep.Note = "no model values obtained from any solver"
		return
	}
	// one in-package test runs all candidates on the real function
	pkg := fn.Pkg.Pkg
	imports := map[string]string{}
	qual := func(p *types.Package) string {
		if p == pkg {
			return ""
		}
		imports[p.Path()] = p.Name()
		return p.Name()
	}
	nres := fn.Signature.Results().Len()
	var cases strings.Builder
	var usable []map[string]string
	for _, vals := range cands {
		var setup, args, ptrDumps []string
		recv := ""
		ok := true
		for _, in := range replayInputs(e, o) {
			lit, good := goLiteral(vals, in.Ty, "in."+in.Name, qual, 0)
			if !good {
				ok = false
				if os.Getenv("VERIF_DEBUG") != "" {
					fmt.Fprintf(os.Stderr, "replay: input %s (%s) not representable\n", in.Name, in.Ty)
					for _, k := range sortedKeys(vals) {
						if strings.HasPrefix(k, "in."+in.Name) && (strings.HasSuffix(k, ".len") || strings.HasSuffix(k, ".ref")) {
							fmt.Fprintf(os.Stderr, "   %s = %s\n", k, vals[k])
						}
					}
				}
				break
			}
			if strings.Contains(in.Name, ".") {
				parts := strings.SplitN(in.Name, ".", 2)
				if parts[0] == pkg.Name() {
					setup = append(setup, fmt.Sprintf("%s = %s", parts[1], lit))
				}
				continue
			}
			if fn.Signature.Recv() != nil && recv == "" && in.Name == fn.Params[0].Name() {
				recv = lit
				continue
			}
			av := fmt.Sprintf("a%d", len(args))
			setup = append(setup, fmt.Sprintf("%s := %s", av, lit))
			if _, isPtr := in.Ty.Underlying().(*types.Pointer); isPtr && !isNodeType(in.Ty) {
				ptrDumps = append(ptrDumps, fmt.Sprintf("verifDump(\"out.p.%s\", reflect.ValueOf(%s), out, 0)", in.Name, av))
			}
			args = append(args, av)
		}
		if !ok {
			continue
		}
		call := fn.Name() + "(" + strings.Join(args, ", ") + ")"
		if fn.Signature.Recv() != nil {
			call = "(" + recv + ")." + call
		}
		var body strings.Builder
		for _, st := range setup {
			body.WriteString("\t\t\t" + st + "\n")
		}
		if nres > 0 {
			var lhs []string
			for i := 0; i < nres; i++ {
				lhs = append(lhs, fmt.Sprintf("r%d", i))
			}
			body.WriteString("\t\t\t" + strings.Join(lhs, ", ") + " := " + call + "\n")
			for i := 0; i < nres; i++ {
				body.WriteString(fmt.Sprintf("\t\t\tverifDump(\"out.r%d\", reflect.ValueOf(r%d), out, 0)\n", i, i))
			}
		} else {
			body.WriteString("\t\t\t" + call + "\n")
		}
		for _, d := range ptrDumps {
			body.WriteString("\t\t\t" + d + "\n")
		}
		cases.WriteString("\tfunc() {\n\t\tout := map[string]interface{}{}\n\t\tfunc() {\n\t\t\tdefer func() {\n\t\t\t\tif r := recover(); r != nil {\n\t\t\t\t\tout[\"panic\"] = fmt.Sprint(r)\n\t\t\t\t}\n\t\t\t}()\n" + body.String() + "\t\t}()\n\t\tall = append(all, out)\n\t}()\n")
		usable = append(usable, vals)
	}
	if len(usable) == 0 {
		rep.Note = "model inputs not representable as Go literals (too large or unsupported shape)"
		return
	}
	usesToken := strings.Contains(cases.String(), "verifToken(")
	var imp strings.Builder
	imp.WriteString("import (\n\t\"encoding/json\"\n\t\"fmt\"\n\t\"reflect\"\n\t\"testing\"\n")
	if usesToken {
		imp.WriteString("\tverifantlr \"github.com/antlr/antlr4/runtime/Go/antlr/v4\"\n\tverifcomment \"github.com/modernizing/coca/languages/comment\"\n")
	}
	var ips []string
	for p := range imports {
		ips = append(ips, p)
	}
	sort.Strings(ips)
	for _, p := range ips {
		imp.WriteString(fmt.Sprintf("\t%s %q\n", imports[p], p))
	}
	imp.WriteString(")\n")
	src := fmt.Sprintf(replayTemplate, pkg.Name(), imp.String(), replayMaxElems+2, tokenHelper(usesToken), cases.String())
	obs, err := runOverlayTest(w, fn, src)
	if err != nil {
		rep.Note = "candidate inputs found (" + how + ") but the replay run failed: " + err.Error()
		return
	}
	var got []map[string]interface{}
	if json.Unmarshal([]byte(obs), &got) != nil || len(got) != len(usable) {
		rep.Note = "replay output not understood"
		return
	}
	isSafety := !(o.Class == "post" || strings.HasPrefix(o.Class, "pre@") || strings.HasPrefix(o.Class, "extpre@"))
	for ci, vals := range usable {
		ins := map[string]interface{}{}
		for k, v := range vals {
			if strings.HasPrefix(k, "in.") {
				ins[k] = v
			}
		}
		ob, _ := json.Marshal(got[ci])
		if p, ok := got[ci]["panic"]; ok {
			if isSafety || o.Class == "post" {
				rep.Confirmed = true
				rep.Status = "refuted-and-replayed"
				rep.Inputs = ins
				rep.Observed = string(ob)
				rep.Note = fmt.Sprintf("candidate %d of %d (%s): the real function panics on this input: %v", ci+1, len(usable), how, p)
				return
			}
			continue
		}
		if o.Class == "post" && r.ss != nil {
			viol, why := evalClauseGround(w, r.ss, fn, o, vals, got[ci], dir)
			if viol {
				rep.Confirmed = true
				rep.Status = "refuted-and-replayed"
				rep.Inputs = ins
				rep.Observed = string(ob)
				rep.Note = fmt.Sprintf("candidate %d of %d (%s): the clause evaluates to false on the real function's inputs and observed outputs (%s)", ci+1, len(usable), how, why)
				return
			}
		}
		if rep.Inputs == nil {
			rep.Inputs = ins
			rep.Observed = string(ob)
		}
	}
	rep.Note = fmt.Sprintf("%d candidate inputs (%s) run on the real function: none reproduces the failure (the models rely on over-approximated callees/externals, or the obligation is an intermediate one)", len(usable), how)
}

const replayTemplate = `package %s

%s
func verifPtr[T any](v T) *T { return &v }

func verifDump(p string, v reflect.Value, out map[string]interface{}, d int) {
	if d > 6 || !v.IsValid() {
		return
	}
	switch v.Kind() {
	case reflect.Int, reflect.Int8, reflect.Int16, reflect.Int32, reflect.Int64:
		out[p] = v.Int()
	case reflect.Uint, reflect.Uint8, reflect.Uint16, reflect.Uint32, reflect.Uint64:
		out[p] = v.Uint()
	case reflect.Bool:
		out[p] = v.Bool()
	case reflect.String:
		out[p] = v.String()
	case reflect.Slice:
		out[p+".len"] = v.Len()
		out[p+".nil"] = v.IsNil()
		for i := 0; i < v.Len() && i < %d; i++ {
			verifDump(fmt.Sprintf("%%s[%%d]", p, i), v.Index(i), out, d+1)
		}
	case reflect.Struct:
		for i := 0; i < v.NumField(); i++ {
			verifDump(p+"."+v.Type().Field(i).Name, v.Field(i), out, d+1)
		}
	case reflect.Ptr:
		if v.IsNil() {
			out[p+".ref"] = 0
		} else {
			out[p+".ref"] = 1
			verifDump(p+".*", v.Elem(), out, d+1)
		}
	}
}
%s
func TestVerifReplay(t *testing.T) {
	var all []map[string]interface{}
%s
	b, _ := json.Marshal(all)
	fmt.Println("VERIF-REPLAY " + string(b))
}
`

// evalClauseGround: the violated ensures clause re-evaluated by the solver on (model inputs, observed real outputs).
// The function body is not encoded at all here: parameters and results are constants pinned to literals.
func evalClauseGround(w *World, ss *SpecSet, fn *ssa.Function, o *Obligation, in map[string]string, out map[string]interface{}, dir string) (bool, string) {
	ct := w.contractFor(ss, fn)
	if ct == nil {
		return false, "no contract"
	}
	idx := -1
	for i, c := range ct.Ensures {
		if c.Text == o.Text {
			idx = i
		}
	}
	if idx < 0 {
		return false, "clause not found"
	}
	for _, fnd := range []bool{false, true} {
		e := newEnc(w, ss, fn)
		e.finder = fnd
		e.translateAxioms()
		fr := newFrame(fn, nil)
		e.fr = fr
		fr.cur = "true"
		fr.entryMem = map[string]Term{}
		var pins []string
		fl := &flattener{e: e, ok: true}
		for _, p := range fn.Params {
			if pt, isPtr := p.Type().Underlying().(*types.Pointer); isPtr && !isNodeType(p.Type()) {
				e.heapKey(pt.Elem())
			}
		}
		for _, p := range fn.Params {
			fl.flat(e.value(p), p.Type(), "in."+p.Name(), 0)
		}
		gl := fl.leaves
		if len(fl.maps) > 0 {
			// the entries of map inputs, in the order the candidate keys were numbered
			var keys []string
			for i := 0; ; i++ {
				kv, ok := in[fmt.Sprintf("%s{%d}.key", fl.maps[0].path, i)]
				if !ok {
					break
				}
				ks, _ := smtStrVal(kv)
				keys = append(keys, ks)
			}
			gl = append(append([]leaf{}, gl...), fl.mapLeaves(keys)...)
			// keys outside the candidate set are absent in the concrete input
			for _, m := range fl.maps {
				var ks []string
				for _, k := range keys {
					ks = append(ks, fmt.Sprintf("(= wf_k %s)", smtStr(k)))
				}
				cond := "false"
				if len(ks) > 0 {
					cond = "(or " + strings.Join(ks, " ") + ")"
				}
				pins = append(pins, fmt.Sprintf("(forall ((wf_k String)) (! (=> (not %s) (not (select (dom_%s %s) wf_k))) :pattern ((select (dom_%s %s) wf_k))))", cond, m.sort, m.term, m.sort, m.term))
			}
		}
		for _, l := range gl {
			if strings.HasSuffix(l.path, ".key") {
				continue
			}
			if v, ok := in[l.path]; ok && pinnable(l.path, in) {
				pins = append(pins, fmt.Sprintf("(= %s %s)", l.term, v))
			}
		}
		// post state: pointer parameters are dereferenced in a separate heap, pinned to what the real run left there
		pre := copyMem(e.mem)
		post := copyMem(e.mem)
		flp := &flattener{e: e, ok: true}
		for _, p := range fn.Params {
			pt, isPtr := p.Type().Underlying().(*types.Pointer)
			if !isPtr || isNodeType(p.Type()) {
				continue
			}
			key := e.heapKey(pt.Elem())
			if post[key] == pre[key] || post[key] == "" {
				post[key] = e.fresh("heap_post", e.memSort[key])
			}
			flp.flat(fmt.Sprintf("(select %s %s)", post[key], e.value(p)), pt.Elem(), "out.p."+p.Name()+".*", 1)
		}
		env := e.fnEnv(fr, post)
		env.oldMem = pre
		flo := &flattener{e: e, ok: true}
		flo.leaves = append(flo.leaves, flp.leaves...)
		for j := 0; j < fn.Signature.Results().Len(); j++ {
			rty := fn.Signature.Results().At(j).Type()
			t := e.fresh("obs_r", e.so.of(rty))
			env.results = append(env.results, e.mkT(t, rty))
			flo.flat(t, rty, fmt.Sprintf("out.r%d", j), 1)
		}
		for _, l := range flo.leaves {
			gv, ok := out[l.path]
			if !ok {
				continue
			}
			switch l.kind {
			case "int":
				if f, ok := gv.(float64); ok {
					pins = append(pins, fmt.Sprintf("(= %s %s)", l.term, smtInt(int64(f))))
				}
			case "bool":
				if b, ok := gv.(bool); ok {
					pins = append(pins, fmt.Sprintf("(= %s %v)", l.term, b))
				}
			case "string":
				if s, ok := gv.(string); ok {
					pins = append(pins, fmt.Sprintf("(= %s %s)", l.term, smtStr(s)))
				}
			}
		}
		g, err := e.specBool(env, ct.Ensures[idx].E)
		if err != nil {
			return false, err.Error()
		}
		// regular-expression functions are evaluated for real on the concrete string inputs (the engine runs Go's regexp)
		ssl := e.needStrSlice()
		for fname, pat := range e.rePats {
			rx, err := regexp.Compile(pat)
			if err != nil {
				continue
			}
			for _, l := range gl {
				v, ok := in[l.path]
				if !ok || l.kind != "string" {
					continue
				}
				gs, ok := smtStrVal(v)
				if !ok {
					continue
				}
				m := rx.FindStringSubmatch(gs)
				app := fmt.Sprintf("(%s %s)", fname, v)
				if m == nil {
					pins = append(pins, fmt.Sprintf("(and (nil_%s %s) (= (len_%s %s) 0))", ssl, app, ssl, app))
					continue
				}
				pins = append(pins, fmt.Sprintf("(and (not (nil_%s %s)) (= (len_%s %s) %d))", ssl, app, ssl, app, len(m)))
				for i, g := range m {
					pins = append(pins, fmt.Sprintf("(= (select (arr_%s %s) %d) %s)", ssl, app, i, smtStr(g)))
				}
			}
		}
		for _, p := range pins {
			e.assume(p)
		}
		ob := &Obligation{Name: o.Name + ".ground", Goal: g, At: "true", NDecl: len(e.decls), NDef: len(e.defs)}
		groundSeq++
		file := filepath.Join(dir, clean(o.Name)+fmt.Sprintf(".ground%v.%d.smt2", fnd, groundSeq))
		os.WriteFile(file, []byte(e.script(ob, nil)), 0644)
		res := race(file, 10, false)
		if res.Status == "sat" {
			return true, "ground query sat by " + res.Solver
		}
		if res.Status == "unsat" {
			return false, "clause holds on the real run"
		}
	}
	return false, "ground query undecided"
}

// pinnable: slice elements beyond the model's length are not pinned
func pinnable(path string, vals map[string]string) bool {
	i := strings.LastIndex(path, "[")
	if i < 0 {
		return true
	}
	j := strings.Index(path[i:], "]")
	idx, err := strconv.Atoi(path[i+1 : i+j])
	if err != nil {
		return true
	}
	n, ok := smtIntVal(vals[path[:i]+".len"])
	if !ok {
		return true
	}
	return int64(idx) < n && pinnable(path[:i], vals)
}

func tokenHelper(use bool) string {
	if !use {
		return ""
	}
	// a real token: the comment lexer the tool ships is run over the text, preceded by line-1 newlines
	return `
func verifToken(text string, line int) verifantlr.Token {
	if line < 1 || line > 1000 {
		line = 1
	}
	src := ""
	for i := 1; i < line; i++ {
		src += "\n"
	}
	lexer := verifcomment.NewCommentLexer(verifantlr.NewInputStream(src + text))
	for _, t := range lexer.GetAllTokens() {
		if t.GetTokenType() >= 1 && t.GetTokenType() <= 3 {
			return t
		}
	}
	return nil
}
`
}

func fnLoops(fn *ssa.Function) []*ssa.BasicBlock {
	var hs []*ssa.BasicBlock
	for _, b := range fn.Blocks {
		for _, s := range b.Succs {
			if s.Dominates(b) {
				hs = append(hs, s)
			}
		}
	}
	return hs
}

// runOverlayTest injects src as an in-package test file and runs it; returns the JSON after VERIF-REPLAY.
func runOverlayTest(w *World, fn *ssa.Function, src string) (string, error) {
	pos := w.Prog.Fset.Position(fn.Pos())
	pkgDir := filepath.Dir(pos.Filename)
	tmp, err := os.MkdirTemp(w.Scratch, "replay-")
	if err != nil {
		return "", err
	}
	testFile := filepath.Join(tmp, "zz_verif_replay_test.go")
	if err := os.WriteFile(testFile, []byte(src), 0644); err != nil {
		return "", err
	}
	ov := map[string]map[string]string{"Replace": {filepath.Join(pkgDir, "zz_verif_replay_test.go"): testFile}}
	ob, _ := json.Marshal(ov)
	ovFile := filepath.Join(tmp, "overlay.json")
	os.WriteFile(ovFile, ob, 0644)
	ctx, cancel := context.WithTimeout(context.Background(), 180*time.Second)
	defer cancel()
	cmd := exec.CommandContext(ctx, "go", "test", "-overlay", ovFile, "-modfile="+filepath.Join(w.Scratch, "go.mod"), "-vet=off", "-count=1", "-v", "-timeout", "60s", "-run", "^TestVerifReplay$", ".")
	cmd.Dir = pkgDir
	cmd.Env = append(goEnv(), "GOFLAGS=-mod=mod")
	var buf bytes.Buffer
	cmd.Stdout = &buf
	cmd.Stderr = &buf
	cmd.Run()
	out := buf.String()
	for _, l := range strings.Split(out, "\n") {
		if strings.HasPrefix(l, "VERIF-REPLAY ") {
			return strings.TrimPrefix(l, "VERIF-REPLAY "), nil
		}
	}
	return "", fmt.Errorf("no replay output: %s", firstLines(out, 6))
}
