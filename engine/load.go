package main

import (
	"fmt"
	"go/ast"
	"go/types"
	"os"
	"path/filepath"
	"sort"
	"strings"

	"golang.org/x/tools/go/packages"
	"golang.org/x/tools/go/ssa"
	"golang.org/x/tools/go/ssa/ssautil"
)

const modPath = "github.com/modernizing/coca"

var repoDir = "/repo"

// World is the loaded program: /repo's current working tree, built to SSA on every run.
type World struct {
	Pkgs   []*packages.Package
	Prog   *ssa.Program
	ByPath map[string]*packages.Package
	Funcs  map[string]*ssa.Function // "pkgpath.Func", "pkgpath.Recv.Method", "pkgpath.Func$1"
	Short  map[string][]*ssa.Function // "pkgname.Func" / "pkgname.Recv.Method"
	Scratch string
	gstores map[*ssa.Global][]globalStore
	gaddr   map[*ssa.Global]bool
	repoFuncs []*ssa.Function
	shapes  *shapeSet
	shapeNotes []string
	renameNotes []string
	extWr map[string]bool
}

// scratchMod copies go.mod/go.sum of /repo into a scratch dir so that module
// resolution side effects (GOFLAGS=-mod=mod) never touch /repo.
func scratchMod() (string, error) {
	base := os.Getenv("VERIF_TMP")
	if base == "" {
		base = os.TempDir()
	}
	dir, err := os.MkdirTemp(base, "vcgo-")
	if err != nil {
		return "", err
	}
	for _, f := range []string{"go.mod", "go.sum"} {
		b, err := os.ReadFile(filepath.Join(repoDir, f))
		if err != nil {
			return "", err
		}
		if err := os.WriteFile(filepath.Join(dir, f), b, 0644); err != nil {
			return "", err
		}
	}
	return dir, nil
}

func goEnv() []string {
	env := os.Environ()
	env = append(env, "GOFLAGS=-mod=mod", "GOPROXY=off", "GOSUMDB=off", "GOTOOLCHAIN=local")
	return env
}

func loadWorld(patterns []string) (*World, error) {
	scratch, err := scratchMod()
	if err != nil {
		return nil, err
	}
	cfg := &packages.Config{
		Mode:       packages.LoadAllSyntax,
		Dir:        repoDir,
		Env:        goEnv(),
		BuildFlags: []string{"-tags=verif", "-modfile=" + filepath.Join(scratch, "go.mod")},
	}
	pkgs, err := packages.Load(cfg, patterns...)
	if err != nil {
		return nil, err
	}
	nerr := 0
	packages.Visit(pkgs, nil, func(p *packages.Package) {
		if strings.HasPrefix(p.PkgPath, modPath) {
			for _, e := range p.Errors {
				fmt.Fprintln(os.Stderr, "LOAD-ERROR", e)
				nerr++
			}
		}
	})
	if nerr > 0 {
		return nil, fmt.Errorf("%d load errors in /repo packages", nerr)
	}
	prog, _ := ssautil.AllPackages(pkgs, ssa.GlobalDebug|ssa.BareInits)
	prog.Build()
	w := &World{Pkgs: pkgs, Prog: prog, ByPath: map[string]*packages.Package{}, Funcs: map[string]*ssa.Function{}, Short: map[string][]*ssa.Function{}, Scratch: scratch}
	packages.Visit(pkgs, nil, func(p *packages.Package) { w.ByPath[p.PkgPath] = p })
	for fn := range ssautil.AllFunctions(prog) {
		if fn.Pkg == nil || fn.Synthetic != "" && !strings.HasPrefix(fn.Name(), "init") {
			continue
		}
		if !strings.HasPrefix(fn.Pkg.Pkg.Path(), modPath) {
			continue
		}
		k := funcKey(fn)
		w.Funcs[fn.Pkg.Pkg.Path()+"."+k] = fn
		sk := fn.Pkg.Pkg.Name() + "." + k
		w.Short[sk] = append(w.Short[sk], fn)
	}
	return w, nil
}

func (w *World) Close() {
	if w.Scratch != "" {
		os.RemoveAll(w.Scratch)
	}
}

// funcKey: "Func", "Recv.Method", "Func$1"
func funcKey(fn *ssa.Function) string {
	if fn.Parent() != nil {
		return funcKey(fn.Parent()) + strings.TrimPrefix(fn.Name(), fn.Parent().Name())
	}
	if recv := fn.Signature.Recv(); recv != nil {
		t := recv.Type()
		if p, ok := t.(*types.Pointer); ok {
			t = p.Elem()
		}
		if n, ok := t.(*types.Named); ok {
			return n.Obj().Name() + "." + fn.Name()
		}
	}
	return fn.Name()
}

// find resolves "pkgname.Func", "pkgpath.Func" or a bare key unique in the program.
func (w *World) find(name string) (*ssa.Function, error) {
	if f, ok := w.Funcs[name]; ok {
		return f, nil
	}
	if fs, ok := w.Short[name]; ok {
		if len(fs) == 1 {
			return fs[0], nil
		}
		return nil, fmt.Errorf("ambiguous function %s (%d candidates)", name, len(fs))
	}
	var cands []*ssa.Function
	for k, f := range w.Funcs {
		if strings.HasSuffix(k, "."+name) || strings.HasSuffix(k, "/"+name) {
			cands = append(cands, f)
		}
	}
	if len(cands) == 1 {
		return cands[0], nil
	}
	return nil, fmt.Errorf("function %s not found or ambiguous (%d candidates)", name, len(cands))
}

func fnFull(fn *ssa.Function) string {
	if fn.Pkg == nil {
		return fn.String()
	}
	return fn.Pkg.Pkg.Name() + "." + funcKey(fn)
}

// contract comment blocks: raw "//@" lines of every zz_contracts_verif.go of the loaded repo packages.
type rawContractFile struct {
	Pkg   *packages.Package
	File  string
	Lines []string
}

func (w *World) contractFiles() []rawContractFile {
	var out []rawContractFile
	var paths []string
	for p := range w.ByPath {
		paths = append(paths, p)
	}
	sort.Strings(paths)
	for _, pp := range paths {
		p := w.ByPath[pp]
		if !strings.HasPrefix(p.PkgPath, modPath) {
			continue
		}
		for i, f := range p.Syntax {
			name := ""
			if i < len(p.CompiledGoFiles) {
				name = p.CompiledGoFiles[i]
			}
			if !strings.HasSuffix(name, "zz_contracts_verif.go") {
				continue
			}
			out = append(out, rawContractFile{Pkg: p, File: name, Lines: specLines(f)})
		}
	}
	return out
}

func specLines(f *ast.File) []string {
	var lines []string
	for _, cg := range f.Comments {
		for _, c := range cg.List {
			t := c.Text
			if strings.HasPrefix(t, "//@") {
				lines = append(lines, strings.TrimPrefix(t, "//@"))
			}
		}
	}
	return lines
}

// extWritten: does any repository function store into a struct of the given external package (through a field address)?
// The typeinv assumptions on such structs are only sound while the repository treats them as read-only data.
func (w *World) extWritten(pkgPath string) bool {
	if w.extWr == nil {
		w.extWr = map[string]bool{}
	}
	if v, ok := w.extWr[pkgPath]; ok {
		return v
	}
	found := false
	for _, fn := range w.Funcs {
		for _, b := range fn.Blocks {
			for _, in := range b.Instrs {
				st, ok := in.(*ssa.Store)
				if !ok {
					continue
				}
				a := st.Addr
				for d := 0; d < 6; d++ {
					switch x := a.(type) {
					case *ssa.FieldAddr:
						if pt, ok := x.X.Type().Underlying().(*types.Pointer); ok {
							if n, ok := pt.Elem().(*types.Named); ok && n.Obj().Pkg() != nil && n.Obj().Pkg().Path() == pkgPath {
								if _, local := x.X.(*ssa.Alloc); !local {
									found = true
								}
							}
						}
						a = x.X
						continue
					case *ssa.IndexAddr:
						a = x.X
						continue
					}
					break
				}
			}
		}
	}
	w.extWr[pkgPath] = found
	return found
}
