package main

import (
	"fmt"
	"strconv"
	"strings"
	"unicode"
)

// ---------- spec expression AST

type SExpr interface{}

type (
	SIdent struct{ Name string }
	SInt   struct{ V string }
	SStr   struct{ V string }
	SBool  struct{ V bool }
	SNil   struct{}
	SUnary struct {
		Op string // ! - *
		X  SExpr
	}
	SBinary struct {
		Op   string
		X, Y SExpr
	}
	SCall struct {
		Fun  string
		Args []SExpr
	}
	SIndex struct{ X, I SExpr }
	SSlice struct{ X, Lo, Hi SExpr }
	SField struct {
		X    SExpr
		Name string
	}
	SQuant struct {
		Forall bool
		Vars   []SVar
		Trig   [][]SExpr
		Body   SExpr
	}
	SCond struct{ C, A, B SExpr }
	STypeAssert struct { // x.(T): the value held by an interface; TypeIs(x, T): its dynamic type is T
		X    SExpr
		Ty   *STy
		Test bool
	}
	SHash struct{ Name string } // #i : completed iterations of the range loop
)

type SVar struct {
	Name string
	Ty   *STy
}

type STy struct {
	Kind string // name, slice, map, ptr
	Name string // "int", "T", "pkg.T"
	Elem *STy
	Key  *STy
}

func (t *STy) String() string {
	if t == nil {
		return "int"
	}
	switch t.Kind {
	case "slice":
		return "[]" + t.Elem.String()
	case "map":
		return "map[" + t.Key.String() + "]" + t.Elem.String()
	case "ptr":
		return "*" + t.Elem.String()
	}
	return t.Name
}

// ---------- lexer

type tok struct {
	k string // id int str op eof
	v string
}

func lexSpec(s string) ([]tok, error) {
	var out []tok
	i := 0
	for i < len(s) {
		c := s[i]
		switch {
		case c == ' ' || c == '\t' || c == '\n' || c == '\r':
			i++
		case c == '"':
			j := i + 1
			for j < len(s) && s[j] != '"' {
				if s[j] == '\\' {
					j++
				}
				j++
			}
			if j >= len(s) {
				return nil, fmt.Errorf("unterminated string in %q", s)
			}
			v, err := strconv.Unquote(s[i : j+1])
			if err != nil {
				return nil, fmt.Errorf("bad string %s: %v", s[i:j+1], err)
			}
			out = append(out, tok{"str", v})
			i = j + 1
		case c >= '0' && c <= '9':
			j := i
			for j < len(s) && s[j] >= '0' && s[j] <= '9' {
				j++
			}
			out = append(out, tok{"int", s[i:j]})
			i = j
		case c == '_' || unicode.IsLetter(rune(c)):
			j := i
			for j < len(s) && (s[j] == '_' || unicode.IsLetter(rune(s[j])) || unicode.IsDigit(rune(s[j]))) {
				j++
			}
			if strings.HasPrefix(s[j:], "@pre") {
				j += 4
			} else if strings.HasPrefix(s[j:], "@in") {
				j += 3
			}
			out = append(out, tok{"id", s[i:j]})
			i = j
		default:
			ops := []string{"<==>", "==>", "::", ":=", "==", "!=", "<=", ">=", "&&", "||", "[]"}
			matched := false
			for _, op := range ops {
				if strings.HasPrefix(s[i:], op) {
					out = append(out, tok{"op", op})
					i += len(op)
					matched = true
					break
				}
			}
			if !matched {
				out = append(out, tok{"op", string(c)})
				i++
			}
		}
	}
	out = append(out, tok{"eof", ""})
	return out, nil
}

// ---------- parser

type sparser struct {
	toks []tok
	p    int
	src  string
}

func (p *sparser) peek() tok { return p.toks[p.p] }
func (p *sparser) next() tok  { t := p.toks[p.p]; p.p++; return t }
func (p *sparser) isOp(v string) bool {
	t := p.peek()
	return t.k == "op" && t.v == v
}
func (p *sparser) isID(v string) bool {
	t := p.peek()
	return t.k == "id" && t.v == v
}
func (p *sparser) expectOp(v string) {
	if !p.isOp(v) {
		panic(fmt.Sprintf("expected %q at token %d (%q) in %q", v, p.p, p.peek().v, p.src))
	}
	p.p++
}

func parseSpecExpr(src string) (e SExpr, err error) {
	toks, err := lexSpec(src)
	if err != nil {
		return nil, err
	}
	p := &sparser{toks: toks, src: src}
	defer func() {
		if r := recover(); r != nil {
			err = fmt.Errorf("%v", r)
		}
	}()
	e = p.expr()
	if p.peek().k != "eof" {
		return nil, fmt.Errorf("trailing tokens at %q in %q", p.peek().v, src)
	}
	return e, nil
}

func (p *sparser) expr() SExpr { return p.iff() }

func (p *sparser) iff() SExpr {
	x := p.implies()
	for p.isOp("<==>") {
		p.next()
		y := p.implies()
		x = &SBinary{"<==>", x, y}
	}
	return x
}

func (p *sparser) implies() SExpr {
	x := p.cond()
	if p.isOp("==>") {
		p.next()
		y := p.implies() // right assoc
		return &SBinary{"==>", x, y}
	}
	return x
}

func (p *sparser) cond() SExpr {
	x := p.or()
	if p.isOp("?") {
		p.next()
		a := p.cond()
		p.expectOp(":")
		b := p.cond()
		return &SCond{x, a, b}
	}
	return x
}

func (p *sparser) or() SExpr {
	x := p.and()
	for p.isOp("||") {
		p.next()
		x = &SBinary{"||", x, p.and()}
	}
	return x
}

func (p *sparser) and() SExpr {
	x := p.cmp()
	for p.isOp("&&") {
		p.next()
		x = &SBinary{"&&", x, p.cmp()}
	}
	return x
}

func (p *sparser) cmp() SExpr {
	x := p.add()
	// chained comparisons a <= b < c
	var res SExpr
	for {
		t := p.peek()
		if t.k == "op" && (t.v == "==" || t.v == "!=" || t.v == "<" || t.v == "<=" || t.v == ">" || t.v == ">=") {
			p.next()
			y := p.add()
			c := &SBinary{t.v, x, y}
			if res == nil {
				res = c
			} else {
				res = &SBinary{"&&", res, c}
			}
			x = y
			continue
		}
		if t.k == "id" && t.v == "in" {
			p.next()
			y := p.add()
			c := &SBinary{"in", x, y}
			if res == nil {
				res = c
			} else {
				res = &SBinary{"&&", res, c}
			}
			x = y
			continue
		}
		break
	}
	if res != nil {
		return res
	}
	return x
}

func (p *sparser) add() SExpr {
	x := p.mul()
	for p.isOp("+") || p.isOp("-") {
		op := p.next().v
		x = &SBinary{op, x, p.mul()}
	}
	return x
}

func (p *sparser) mul() SExpr {
	x := p.unary()
	for p.isOp("*") || p.isOp("/") || p.isOp("%") {
		op := p.next().v
		x = &SBinary{op, x, p.unary()}
	}
	return x
}

func (p *sparser) unary() SExpr {
	if p.isOp("!") || p.isOp("-") || p.isOp("*") {
		op := p.next().v
		return &SUnary{op, p.unary()}
	}
	return p.postfix()
}

func (p *sparser) postfix() SExpr {
	x := p.primary()
	for {
		switch {
		case p.isOp("."):
			p.next()
			if p.isOp("(") {
				p.next()
				ty := p.ty()
				p.expectOp(")")
				x = &STypeAssert{x, ty, false}
				continue
			}
			t := p.next()
			if t.k != "id" {
				panic("expected field name after '.' in " + p.src)
			}
			// qualified call pkg.Fn(...) or qualified spec name
			if id, ok := x.(*SIdent); ok && p.isOp("(") && isLower(id.Name) {
				x = &SIdent{id.Name + "." + t.v}
				continue
			}
			x = &SField{x, t.v}
		case p.isOp("["):
			p.next()
			var lo, hi SExpr
			if p.isOp(":") {
				p.next()
				if !p.isOp("]") {
					hi = p.expr()
				}
				p.expectOp("]")
				x = &SSlice{x, nil, hi}
				continue
			}
			lo = p.expr()
			if p.isOp(":") {
				p.next()
				if !p.isOp("]") {
					hi = p.expr()
				}
				p.expectOp("]")
				x = &SSlice{x, lo, hi}
				continue
			}
			p.expectOp("]")
			x = &SIndex{x, lo}
		case p.isOp("("):
			id, ok := x.(*SIdent)
			if !ok {
				panic("call of non-identifier in " + p.src)
			}
			p.next()
			if id.Name == "TypeIs" {
				a := p.expr()
				p.expectOp(",")
				ty := p.ty()
				p.expectOp(")")
				x = &STypeAssert{a, ty, true}
				continue
			}
			var args []SExpr
			for !p.isOp(")") {
				args = append(args, p.expr())
				if p.isOp(",") {
					p.next()
				}
			}
			p.expectOp(")")
			x = &SCall{id.Name, args}
		default:
			return x
		}
	}
}

func isLower(s string) bool { return s != "" && s[0] >= 'a' && s[0] <= 'z' }

func (p *sparser) primary() SExpr {
	t := p.next()
	switch t.k {
	case "int":
		return &SInt{t.v}
	case "str":
		return &SStr{t.v}
	case "id":
		switch t.v {
		case "true":
			return &SBool{true}
		case "false":
			return &SBool{false}
		case "nil":
			return &SNil{}
		case "forall", "exists":
			return p.quant(t.v == "forall")
		}
		return &SIdent{t.v}
	case "op":
		switch t.v {
		case "(":
			e := p.expr()
			p.expectOp(")")
			return e
		case "#":
			id := p.next()
			if id.k != "id" {
				panic("expected identifier after # in " + p.src)
			}
			return &SHash{id.v}
		}
	}
	panic(fmt.Sprintf("unexpected token %q in %q", t.v, p.src))
}

func (p *sparser) quant(forall bool) SExpr {
	q := &SQuant{Forall: forall}
	q.Vars = p.varList("::")
	p.expectOp("::")
	for p.isOp("{") {
		p.next()
		var tr []SExpr
		for !p.isOp("}") {
			tr = append(tr, p.expr())
			if p.isOp(",") {
				p.next()
			}
		}
		p.expectOp("}")
		q.Trig = append(q.Trig, tr)
	}
	q.Body = p.expr()
	return q
}

// varList parses "a, b int, s []T" up to (not including) the terminator op.
func (p *sparser) varList(term string) []SVar {
	var vars []SVar
	var pending []string
	for !p.isOp(term) {
		t := p.next()
		if t.k != "id" {
			panic(fmt.Sprintf("expected variable name, got %q in %q", t.v, p.src))
		}
		pending = append(pending, t.v)
		if p.isOp(",") {
			p.next()
			continue
		}
		if p.isOp(term) {
			break
		}
		ty := p.ty()
		for _, n := range pending {
			vars = append(vars, SVar{n, ty})
		}
		pending = nil
		if p.isOp(",") {
			p.next()
		}
	}
	for _, n := range pending {
		vars = append(vars, SVar{n, &STy{Kind: "name", Name: "int"}})
	}
	return vars
}

func (p *sparser) ty() *STy {
	switch {
	case p.isOp("[]"):
		p.next()
		return &STy{Kind: "slice", Elem: p.ty()}
	case p.isOp("["):
		p.next()
		p.expectOp("]")
		return &STy{Kind: "slice", Elem: p.ty()}
	case p.isOp("*"):
		p.next()
		return &STy{Kind: "ptr", Elem: p.ty()}
	case p.isID("map"):
		p.next()
		p.expectOp("[")
		k := p.ty()
		p.expectOp("]")
		return &STy{Kind: "map", Key: k, Elem: p.ty()}
	}
	t := p.next()
	if t.k != "id" {
		panic(fmt.Sprintf("expected type, got %q in %q", t.v, p.src))
	}
	name := t.v
	if p.isOp(".") {
		p.next()
		name += "." + p.next().v
	}
	return &STy{Kind: "name", Name: name}
}

// ---------- contract files

type Clause struct {
	Text string
	E    SExpr
}

type LoopSpec struct {
	Invariants []Clause
	Decreases  *Clause
	Asserts    []Clause // lemmas proved at the back edge (then assumed) before the invariants are re-established
}

type Contract struct {
	Key      string // "Func" or "Recv.Method" or "Func$1"
	PkgPath  string
	File     string
	Requires []Clause
	Ensures  []Clause
	Modifies []Clause // expressions naming locations: *p, globalVar
	ModAll   bool
	ModFS    bool
	Decreases *Clause
	Loops    map[int]*LoopSpec
	Trusted  string
	Pure     bool
	NoInline bool
	Inline   bool // the contract only carries loop invariants / proof steps: calls are inlined, the clauses apply in the inlined body
	Establishes bool // constructor: the package invariants are not assumed at entry, only proved at exit
	Asserts  map[int][]Clause
	After    map[string][]Clause // "callee#k" -> lemmas proved (then assumed) right after that call
	Before   map[string][]Clause // "callee#k" -> assertions proved right before that call
	CoverBefore map[string][]Clause // "callee#k" -> conditions under which that call must be reachable
	AtReturn []Clause            // assertions over the locals, proved at every return of the function
	Preserves []Clause          // closure: state invariant of the iteration it is the body of (requires + ensures; proved before and assumed after an external call that is handed the closure)
}

type SpecFunc struct {
	Name    string
	Params  []SVar
	Ret     *STy
	Body    SExpr // nil: uninterpreted
	PkgPath string
	Text    string
	Rec     bool   // recursive definition: declared uninterpreted, unfolded once at every use
	RecVar  string // the int parameter the recursion descends on
	Opaque  bool   // declared uninterpreted; the definition is unfolded at ground occurrences only
}

type Axiom struct {
	Lemma   bool // proved by the engine (negation is a ground query), then used like an axiom
	Name    string
	E       SExpr
	PkgPath string
	Text    string
}

type SpecSet struct {
	Contracts map[string]*Contract // pkgpath + "." + key
	Funcs     map[string]*SpecFunc
	FuncOrder []string
	Axioms    []*Axiom
	Invariants map[string][]Clause // package path -> state invariants of the package's listener / parser state
	TypeInvs   map[string][]Clause // "pkgpath.Type" -> invariants of an external data type (`self` is the struct value); trusted
}

func newSpecSet() *SpecSet {
	return &SpecSet{Contracts: map[string]*Contract{}, Funcs: map[string]*SpecFunc{}}
}

var clauseKW = map[string]bool{"func": true, "method": true, "closure": true, "requires": true, "ensures": true, "modifies": true,
	"decreases": true, "loop": true, "trusted": true, "pure": true, "noinline": true, "spec": true, "axiom": true, "lemma": true, "package": true, "assert": true, "invariant": true, "establishes": true, "inline": true, "cover": true, "typeinv": true, "preserves": true}

// parseContractLines parses the "//@" lines of one file. pkgPath is the Go package whose scope resolves type names.
func (ss *SpecSet) parseContractLines(lines []string, pkgPath, file string) error {
	// join continuation lines
	var stmts []string
	for _, l := range lines {
		t := strings.TrimSpace(l)
		if t == "" || strings.HasPrefix(t, "--") {
			continue
		}
		first := t
		if i := strings.IndexAny(t, " \t"); i >= 0 {
			first = t[:i]
		}
		if clauseKW[first] {
			stmts = append(stmts, t)
		} else if len(stmts) > 0 {
			stmts[len(stmts)-1] += " " + t
		} else {
			return fmt.Errorf("%s: stray spec line %q", file, t)
		}
	}
	var cur *Contract
	for _, st := range stmts {
		kw, rest := st, ""
		if i := strings.IndexAny(st, " \t"); i >= 0 {
			kw, rest = st[:i], strings.TrimSpace(st[i+1:])
		}
		mk := func(text string) (Clause, error) {
			e, err := parseSpecExpr(text)
			if err != nil {
				return Clause{}, fmt.Errorf("%s: %v", file, err)
			}
			return Clause{Text: text, E: e}, nil
		}
		switch kw {
		case "package":
			pkgPath = rest
			cur = nil
		case "func", "method", "closure":
			cur = &Contract{Key: rest, PkgPath: pkgPath, File: file, Loops: map[int]*LoopSpec{}, Asserts: map[int][]Clause{}, After: map[string][]Clause{}, Before: map[string][]Clause{}}
			k := pkgPath + "." + rest
			if _, dup := ss.Contracts[k]; dup {
				return fmt.Errorf("%s: duplicate contract for %s", file, k)
			}
			ss.Contracts[k] = cur
		case "spec":
			rec, opaque := false, false
			if strings.HasPrefix(rest, "rec ") {
				rec = true
				rest = strings.TrimSpace(strings.TrimPrefix(rest, "rec "))
			}
			if strings.HasPrefix(rest, "opaque ") {
				opaque = true
				rest = strings.TrimSpace(strings.TrimPrefix(rest, "opaque "))
			}
			f, err := parseSpecFunc(rest)
			if err != nil {
				return fmt.Errorf("%s: %v", file, err)
			}
			if rec {
				if err := checkRec(f); err != nil {
					return fmt.Errorf("%s: spec rec %s: %v", file, f.Name, err)
				}
			}
			f.PkgPath = pkgPath
			f.Opaque = opaque && f.Body != nil
			if _, dup := ss.Funcs[f.Name]; dup {
				return fmt.Errorf("%s: duplicate spec function %s", file, f.Name)
			}
			ss.Funcs[f.Name] = f
			ss.FuncOrder = append(ss.FuncOrder, f.Name)
			cur = nil
		case "typeinv":
			i := strings.Index(rest, ":")
			if i < 0 {
				return fmt.Errorf("%s: bad clause %q (typeinv pkg.Type: expr)", file, st)
			}
			c, err := mk(strings.TrimSpace(rest[i+1:]))
			if err != nil {
				return err
			}
			if ss.TypeInvs == nil {
				ss.TypeInvs = map[string][]Clause{}
			}
			k := strings.TrimSpace(rest[:i])
			ss.TypeInvs[k] = append(ss.TypeInvs[k], c)
			cur = nil
		case "invariant":
			c, err := mk(rest)
			if err != nil {
				return err
			}
			if ss.Invariants == nil {
				ss.Invariants = map[string][]Clause{}
			}
			ss.Invariants[pkgPath] = append(ss.Invariants[pkgPath], c)
			cur = nil
		case "axiom", "lemma":
			name, body := rest, rest
			if i := strings.Index(rest, ":"); i > 0 && !strings.ContainsAny(rest[:i], " (") {
				name, body = rest[:i], strings.TrimSpace(rest[i+1:])
			}
			c, err := mk(body)
			if err != nil {
				return err
			}
			ss.Axioms = append(ss.Axioms, &Axiom{Name: name, E: c.E, PkgPath: pkgPath, Text: body, Lemma: kw == "lemma"})
			cur = nil
		default:
			if cur == nil {
				return fmt.Errorf("%s: clause %q outside a func block", file, st)
			}
			switch kw {
			case "preserves":
				c, err := mk(rest)
				if err != nil {
					return err
				}
				cur.Requires = append(cur.Requires, c)
				cur.Ensures = append(cur.Ensures, c)
				cur.Preserves = append(cur.Preserves, c)
			case "requires", "ensures":
				c, err := mk(rest)
				if err != nil {
					return err
				}
				if kw == "requires" {
					cur.Requires = append(cur.Requires, c)
				} else {
					cur.Ensures = append(cur.Ensures, c)
				}
			case "modifies":
				if rest == "*" {
					cur.ModAll = true
					cur.ModFS = true
					break
				}
				if rest == "files" {
					cur.ModFS = true // the ghost file system: the function writes files
					break
				}
				for _, part := range splitTop(rest) {
					c, err := mk(part)
					if err != nil {
						return err
					}
					cur.Modifies = append(cur.Modifies, c)
				}
			case "decreases":
				c, err := mk(rest)
				if err != nil {
					return err
				}
				cur.Decreases = &c
			case "trusted":
				cur.Trusted = strings.Trim(rest, `"`)
				if cur.Trusted == "" {
					cur.Trusted = "unspecified"
				}
			case "pure":
				cur.Pure = true
			case "noinline":
				cur.NoInline = true
			case "cover":
				// cover before Callee#k <expr>
				f := strings.Fields(rest)
				if len(f) < 3 || f[0] != "before" {
					return fmt.Errorf("%s: bad clause %q (cover before Callee#k expr)", file, st)
				}
				key := strings.TrimSuffix(f[1], ":")
				body := strings.TrimSpace(strings.TrimPrefix(strings.TrimSpace(strings.TrimPrefix(rest, "before")), f[1]))
				c, err := mk(body)
				if err != nil {
					return err
				}
				if !strings.Contains(key, "#") {
					key += "#1"
				}
				if cur.CoverBefore == nil {
					cur.CoverBefore = map[string][]Clause{}
				}
				cur.CoverBefore[key] = append(cur.CoverBefore[key], c)
			case "establishes":
				cur.Establishes = true
			case "inline":
				cur.Inline = true
			case "loop", "assert":
				f := strings.Fields(rest)
				if kw == "assert" && len(f) >= 2 && f[0] == "return" {
					c, err := mk(strings.TrimSpace(strings.TrimPrefix(rest, "return")))
					if err != nil {
						return err
					}
					cur.AtReturn = append(cur.AtReturn, c)
					break
				}
				if kw == "assert" && len(f) >= 3 && f[0] == "before" {
					key := strings.TrimSuffix(f[1], ":")
					body := strings.TrimSpace(strings.TrimPrefix(strings.TrimSpace(strings.TrimPrefix(rest, "before")), f[1]))
					c, err := mk(body)
					if err != nil {
						return err
					}
					if !strings.Contains(key, "#") {
						key += "#1"
					}
					cur.Before[key] = append(cur.Before[key], c)
					break
				}
				if kw == "assert" && len(f) >= 3 && f[0] == "after" {
					// assert after Callee#k <expr>
					key := strings.TrimSuffix(f[1], ":")
					body := strings.TrimSpace(strings.TrimPrefix(strings.TrimSpace(strings.TrimPrefix(rest, "after")), f[1]))
					c, err := mk(body)
					if err != nil {
						return err
					}
					if !strings.Contains(key, "#") {
						key += "#1"
					}
					cur.After[key] = append(cur.After[key], c)
					break
				}
				if len(f) < 2 {
					return fmt.Errorf("%s: bad clause %q", file, st)
				}
				n, err := strconv.Atoi(f[0])
				if err != nil {
					return fmt.Errorf("%s: bad ordinal in %q", file, st)
				}
				if kw == "assert" {
					c, err := mk(strings.TrimSpace(strings.TrimPrefix(rest, f[0])))
					if err != nil {
						return err
					}
					cur.Asserts[n] = append(cur.Asserts[n], c)
					break
				}
				body := strings.TrimSpace(strings.TrimPrefix(strings.TrimSpace(strings.TrimPrefix(rest, f[0])), f[1]))
				c, err := mk(body)
				if err != nil {
					return err
				}
				ls := cur.Loops[n]
				if ls == nil {
					ls = &LoopSpec{}
					cur.Loops[n] = ls
				}
				switch f[1] {
				case "invariant":
					ls.Invariants = append(ls.Invariants, c)
				case "decreases":
					ls.Decreases = &c
				case "assert":
					ls.Asserts = append(ls.Asserts, c)
				default:
					return fmt.Errorf("%s: bad loop clause %q", file, st)
				}
			}
		}
	}
	return nil
}

func splitTop(s string) []string {
	var out []string
	depth := 0
	last := 0
	for i, c := range s {
		switch c {
		case '(', '[':
			depth++
		case ')', ']':
			depth--
		case ',':
			if depth == 0 {
				out = append(out, strings.TrimSpace(s[last:i]))
				last = i + 1
			}
		}
	}
	out = append(out, strings.TrimSpace(s[last:]))
	return out
}

// spec Name(a T, b U) R [:= expr]
func parseSpecFunc(src string) (f *SpecFunc, err error) {
	head, body := src, ""
	if i := strings.Index(src, ":="); i >= 0 {
		head, body = strings.TrimSpace(src[:i]), strings.TrimSpace(src[i+2:])
	}
	toks, err := lexSpec(head)
	if err != nil {
		return nil, err
	}
	p := &sparser{toks: toks, src: head}
	defer func() {
		if r := recover(); r != nil {
			err = fmt.Errorf("%v", r)
		}
	}()
	name := p.next()
	if name.k != "id" {
		return nil, fmt.Errorf("bad spec function head %q", head)
	}
	f = &SpecFunc{Name: name.v, Text: src}
	p.expectOp("(")
	f.Params = p.varList(")")
	p.expectOp(")")
	f.Ret = p.ty()
	if body != "" {
		f.Body, err = parseSpecExpr(body)
		if err != nil {
			return nil, err
		}
	}
	return f, nil
}

// checkRec: a recursive spec function must have the shape  n <= 0 ? base : ... F(.., n - 1, ..) ...
// (recursion on one int parameter, every recursive call at n - 1): this makes the definition well founded,
// so adding its unfoldings as assumptions cannot introduce an inconsistency.
func checkRec(f *SpecFunc) error {
	c, ok := f.Body.(*SCond)
	if !ok {
		return fmt.Errorf("body must be `n <= 0 ? base : step`")
	}
	b, ok := c.C.(*SBinary)
	if !ok || b.Op != "<=" {
		return fmt.Errorf("condition must be `n <= 0`")
	}
	id, ok1 := b.X.(*SIdent)
	z, ok2 := b.Y.(*SInt)
	if !ok1 || !ok2 || z.V != "0" {
		return fmt.Errorf("condition must be `n <= 0`")
	}
	idx := -1
	for i, p := range f.Params {
		if p.Name == id.Name && (p.Ty == nil || p.Ty.Name == "int") {
			idx = i
		}
	}
	if idx < 0 {
		return fmt.Errorf("%s is not an int parameter", id.Name)
	}
	var bad error
	var walk func(x SExpr, inBase bool)
	walk = func(x SExpr, inBase bool) {
		switch n := x.(type) {
		case *SCall:
			if n.Fun == f.Name {
				if inBase {
					bad = fmt.Errorf("recursive call in the base case")
					return
				}
				if idx >= len(n.Args) {
					bad = fmt.Errorf("bad recursive call")
					return
				}
				a, ok := n.Args[idx].(*SBinary)
				if !ok || a.Op != "-" {
					bad = fmt.Errorf("recursive call must be at %s - 1", id.Name)
					return
				}
				ai, ok1 := a.X.(*SIdent)
				one, ok2 := a.Y.(*SInt)
				if !ok1 || !ok2 || ai.Name != id.Name || one.V != "1" {
					bad = fmt.Errorf("recursive call must be at %s - 1", id.Name)
					return
				}
			}
			for _, a := range n.Args {
				walk(a, inBase)
			}
		case *SUnary:
			walk(n.X, inBase)
		case *SBinary:
			walk(n.X, inBase)
			walk(n.Y, inBase)
		case *SCond:
			walk(n.C, inBase)
			walk(n.A, inBase)
			walk(n.B, inBase)
		case *SIndex:
			walk(n.X, inBase)
			walk(n.I, inBase)
		case *SSlice:
			walk(n.X, inBase)
			if n.Lo != nil {
				walk(n.Lo, inBase)
			}
			if n.Hi != nil {
				walk(n.Hi, inBase)
			}
		case *SField:
			walk(n.X, inBase)
		case *SQuant:
			walk(n.Body, inBase)
		}
	}
	walk(c.A, true)
	walk(c.B, false)
	if bad != nil {
		return bad
	}
	f.Rec = true
	f.RecVar = id.Name
	return nil
}
