package main

import (
	"strconv"
	"fmt"
	"go/token"
	"go/types"
	"sort"
	"strings"

	"golang.org/x/tools/go/ssa"
)

// FuncResult: everything generated for one function under contract / sweep.
type FuncResult struct {
	Fn          *ssa.Function
	Name        string
	Contract    *Contract
	Enc         *enc
	Obls        []*Obligation
	Notes       []string
	OutOfSubset []string
	Errors      []string
	ss          *SpecSet
	lemmaEncs   []*enc // one encoder per lemma obligation (lemmas result only)
}

func (w *World) contractFor(ss *SpecSet, fn *ssa.Function) *Contract {
	if fn.Pkg == nil {
		return nil
	}
	return ss.Contracts[fn.Pkg.Pkg.Path()+"."+funcKey(fn)]
}

// lookupLocal resolves a source-level local variable name to its current symbolic value at loop header h.
func (e *enc) lookupLocal(fr *frame, h *ssa.BasicBlock, phiVals map[*ssa.Phi]Term, mem map[string]Term, name string) (tval, bool) {
	// 0. scope-aware: the variable's current SSA value at this point (dominating DebugRefs and phi comments)
	if v, ok := fr.curNames[name]; ok {
		if phi, isPhi := v.(*ssa.Phi); isPhi {
			if t, ok := phiVals[phi]; ok {
				return e.mkT(t, phi.Type()), true
			}
		}
		if a, isAlloc := v.(*ssa.Alloc); isAlloc && a.Comment == name {
			if l, ok := fr.loc[a]; ok && l.ty != nil {
				return e.mkT(e.readIn(mem, l), l.ty), true
			}
		}
		if p, ok := fr.prov[v]; ok {
			if _, isMap := v.Type().Underlying().(*types.Map); isMap {
				return e.mkT(e.readIn(mem, p), v.Type()), true
			}
			if _, isSlice := v.Type().Underlying().(*types.Slice); isSlice && strings.HasPrefix(p.base, "V:") && len(p.path) == 0 {
				return e.mkT(e.readIn(mem, p), v.Type()), true
			}
		}
		if _, ok := fr.val[v]; ok {
			return e.mkT(e.value(v), v.Type()), true
		}
		if _, ok := v.(*ssa.Const); ok {
			return e.mkT(e.value(v), v.Type()), true
		}
		if _, ok := v.(*ssa.Parameter); ok {
			return e.mkT(e.value(v), v.Type()), true
		}
	}
	// 1. phi of this header
	if h != nil {
		for _, in := range h.Instrs {
			phi, ok := in.(*ssa.Phi)
			if !ok {
				break
			}
			if phi.Comment == name {
				if t, ok := phiVals[phi]; ok {
					return e.mkT(t, phi.Type()), true
				}
			}
		}
	}
	// 2. parameter
	for _, p := range fr.fn.Params {
		if p.Name() == name {
			if l, ok := fr.loc[p]; ok && false {
				_ = l
			}
			return e.mkT(e.value(p), p.Type()), true
		}
	}
	// 3. local cell (address-taken or escaping variable)
	for _, b := range fr.fn.Blocks {
		for _, in := range b.Instrs {
			if a, ok := in.(*ssa.Alloc); ok && a.Comment == name {
				if l, ok := fr.loc[a]; ok && l.ty != nil {
					return e.mkT(e.readIn(mem, l), l.ty), true
				}
			}
		}
	}
	// 4. phis of enclosing loop headers / other values known by DebugRef
	var best ssa.Value
	for _, b := range fr.fn.Blocks {
		if h != nil && !(b.Dominates(h)) {
			continue
		}
		for _, in := range b.Instrs {
			if d, ok := in.(*ssa.DebugRef); ok && !d.IsAddr {
				if id, ok := d.Expr.(interface{ String() string }); ok {
					_ = id
				}
				if identName(d) == name {
					if _, ok := fr.val[d.X]; ok {
						best = d.X
					} else if _, ok := d.X.(*ssa.Const); ok {
						best = d.X
					}
				}
			}
			if phi, ok := in.(*ssa.Phi); ok && phi.Comment == name && b != h {
				if _, ok := fr.val[phi]; ok {
					best = phi
				}
			}
		}
	}
	if best != nil {
		if p, ok := fr.prov[best]; ok {
			if _, isMap := best.Type().Underlying().(*types.Map); isMap {
				return e.mkT(e.readIn(mem, p), best.Type()), true
			}
		}
		return e.mkT(e.value(best), best.Type()), true
	}
	return tval{}, false
}

// lookupLocalAtHeader: value of a loop-carried variable at the beginning of the current iteration (x@pre)
func (e *enc) lookupLocalAtHeader(fr *frame, h *ssa.BasicBlock, ls *loopState, name string) (tval, bool) {
	for _, in := range h.Instrs {
		phi, ok := in.(*ssa.Phi)
		if !ok {
			break
		}
		if phi.Comment == name {
			if t, ok := ls.phiPre[phi]; ok {
				return e.mkT(t, phi.Type()), true
			}
		}
	}
	// variable held in a cell: its content at the loop head
	if v, ok := fr.names[h][name]; ok {
		if a, isAlloc := v.(*ssa.Alloc); isAlloc {
			if l, ok := fr.loc[a]; ok && l.ty != nil {
				return e.mkT(e.readIn(ls.memHead, l), l.ty), true
			}
		}
	}
	return tval{}, false
}

// verifyLemmas: every `lemma` of the spec set is proved here: its bound variables become fresh constants,
// so the negated statement is a ground query in which opaque and recursive definitions are unfolded.
func verifyLemmas(w *World, ss *SpecSet, pkgs ...map[string]bool) *FuncResult {
	res := &FuncResult{Name: "lemmas"}
	for _, ax := range ss.Axioms {
		if !ax.Lemma {
			continue
		}
		if len(pkgs) > 0 && pkgs[0] != nil && !pkgs[0][ax.PkgPath] {
			continue // a lemma is proved by the checks that verify functions of its package
		}
		q, ok := ax.E.(*SQuant)
		if !ok || !q.Forall {
			res.Errors = append(res.Errors, "CONTRACT-ERROR lemma "+ax.Name+": must be a universally quantified statement")
			continue
		}
		e := newEnc(w, ss, nil)
		e.translateAxioms()
		fr := &frame{cur: "true"}
		e.fr = fr
		pkg := e.pkgByPath(ax.PkgPath)
		if pkg == nil {
			continue
		}
		env := &specEnv{e: e, pkg: pkg, vars: map[string]tval{}, mem: map[string]Term{}}
		bad := false
		for _, v := range q.Vars {
			ty, err := e.resolveTy(pkg, v.Ty)
			if err != nil {
				res.Errors = append(res.Errors, "CONTRACT-ERROR lemma "+ax.Name+": "+err.Error())
				bad = true
				break
			}
			c := e.fresh("lem_"+v.Name, e.so.of(ty))
			e.assumeWF(c, ty, 1)
			env.vars[v.Name] = e.mkT(c, ty)
		}
		if bad {
			continue
		}
		g, err := e.specBool(env, q.Body)
		if err != nil {
			res.Errors = append(res.Errors, "CONTRACT-ERROR lemma "+ax.Name+": "+err.Error())
			continue
		}
		// the lemma itself must not be used to prove itself
		var keep []specAxiom
		for _, a := range e.axioms {
			if a.name != ax.Name {
				keep = append(keep, a)
			}
		}
		e.axioms = keep
		o := &Obligation{Name: "lemma." + ax.Name, Class: "lemma", Fn: "lemmas", Goal: g, At: "true", NDecl: len(e.decls), NDef: len(e.defs), Text: ax.Text}
		e.obls = append(e.obls, o)
		res.Obls = append(res.Obls, o)
		res.lemmaEncs = append(res.lemmaEncs, e)
	}
	return res
}

func identName(d *ssa.DebugRef) string {
	if v, ok := d.Object().(*types.Var); ok && v != nil && isPkgLevel(v) {
		return ""
	}
	type named interface{ String() string }
	if id, ok := d.Expr.(interface{ End() token.Pos }); ok {
		_ = id
	}
	if obj := d.Object(); obj != nil {
		return obj.Name()
	}
	return ""
}

func (e *enc) loopEnv(fr *frame, h *ssa.BasicBlock, phiVals map[*ssa.Phi]Term, mem map[string]Term) *specEnv {
	env := e.fnEnv(fr, mem)
	if ls := fr.loops[h]; ls != nil {
		env.visited = ls.visCur
		if ls.rng != nil {
			env.visitedSort = ls.rng.msort
		}
	}
	env.locals = func(name string) (tval, bool) {
		if strings.HasSuffix(name, "@in") {
			// the variable's value when this loop was entered
			base := strings.TrimSuffix(name, "@in")
			if ls := fr.loops[h]; ls != nil && ls.entryPhi != nil {
				for _, in := range h.Instrs {
					phi, ok := in.(*ssa.Phi)
					if !ok {
						break
					}
					if phi.Comment == base {
						if t, ok := ls.entryPhi[phi]; ok && t != "" {
							return e.mkT(t, phi.Type()), true
						}
					}
				}
				if v, ok := fr.curNames[base]; ok {
					if a, isAlloc := v.(*ssa.Alloc); isAlloc {
						if l, ok := fr.loc[a]; ok && l.ty != nil {
							return e.mkT(e.readIn(ls.memEntry, l), l.ty), true
						}
					}
				}
			}
			return e.lookupLocal(fr, h, phiVals, mem, base)
		}
		return e.lookupLocal(fr, h, phiVals, mem, name)
	}
	// a parameter that the body re-assigns (and that is not kept in a cell): the clause sees its current value
	for _, p := range fr.fn.Params {
		if cv, ok := fr.curNames[p.Name()]; ok && cv != ssa.Value(p) {
			if obj, known := fr.curObj[p.Name()]; known && obj != p.Object() {
				continue // another variable of the same name (an inner declaration shadows the parameter here)
			}
			if _, isAlloc := cv.(*ssa.Alloc); !isAlloc {
				if env.curParam == nil {
					env.curParam = map[string]bool{}
				}
				env.curParam[p.Name()] = true
			}
		}
	}
	// pointer variables bound to a composite literal kept in a local cell (p := &T{...} whose address does not escape)
	for name, v := range fr.curNames {
		if a, ok := v.(*ssa.Alloc); ok && a.Comment != name {
			if l, ok := fr.loc[a]; ok && l.ref == "" && l.ty != nil {
				if _, shadow := env.ptrLoc[name]; !shadow {
					env.ptrLoc[name] = l
				}
			}
		}
	}
	env.hash = func(name string) (Term, bool) {
		if strings.HasPrefix(name, "i") && len(name) > 1 {
			// #i<k>: completed iterations of the enclosing range loop with ordinal k
			for hh, ls := range fr.loops {
				if fmt.Sprint(ls.ord) == name[1:] && ls.rangeIdx != nil {
					if hh == h {
						break
					}
					return fmt.Sprintf("(+ %s 1)", ls.phiPre[ls.rangeIdx]), true
				}
				if fmt.Sprint(ls.ord) == name[1:] && ls.countIdx != nil && hh != h {
					return ls.phiPre[ls.countIdx], true
				}
			}
		}
		if name != "i" && name != fmt.Sprintf("i%d", fr.loopOrd[h]) {
			return "", false
		}
		for _, in := range h.Instrs {
			phi, ok := in.(*ssa.Phi)
			if !ok {
				break
			}
			if phi.Comment == "rangeindex" {
				if t, ok := phiVals[phi]; ok {
					if t == "(- 1)" {
						return "0", true
					}
					return fmt.Sprintf("(+ %s 1)", t), true
				}
			}
		}
		if ls := fr.loops[h]; ls != nil && ls.countIdx != nil {
			if t, ok := phiVals[ls.countIdx]; ok {
				return t, true
			}
		}
		return "", false
	}
	return env
}

// paramCopyCell: `t0 = local T (p); *t0 = p` — the cell a struct parameter is copied into at function entry
func paramCopyCell(p *ssa.Parameter) *ssa.Alloc {
	refs := p.Referrers()
	if refs == nil {
		return nil
	}
	for _, r := range *refs {
		if st, ok := r.(*ssa.Store); ok && st.Val == ssa.Value(p) {
			if a, ok := st.Addr.(*ssa.Alloc); ok && a.Comment == p.Name() {
				return a
			}
		}
	}
	return nil
}

// fnEnv: environment for clauses of the frame's own function (parameters by name)
func (e *enc) fnEnv(fr *frame, mem map[string]Term) *specEnv {
	env := &specEnv{e: e, fr: fr, vars: map[string]tval{}, ptrLoc: map[string]*Loc{}, mem: mem, oldMem: fr.entryMem}
	if fr.fn.Pkg != nil {
		env.pkg = fr.fn.Pkg.Pkg
	}
	env.varLoc = map[string]*Loc{}
	for _, p := range fr.fn.Params {
		env.vars[p.Name()] = e.mkT(e.value(p), p.Type())
		if l, ok := fr.loc[p]; ok {
			env.ptrLoc[p.Name()] = l
		}
		if _, isMap := p.Type().Underlying().(*types.Map); isMap {
			if l, ok := fr.prov[p]; ok {
				env.varLoc[p.Name()] = l
			}
		}
		// a struct parameter that the function copies into a cell (its fields are assigned / its maps updated): the cell is the variable
		if _, isStruct := p.Type().Underlying().(*types.Struct); isStruct {
			if a := paramCopyCell(p); a != nil {
				if l, ok := fr.loc[a]; ok && l.ty != nil {
					env.varLoc[p.Name()] = l
				}
			}
		}
	}
	for i, fv := range fr.fn.FreeVars {
		_ = i
		if l, ok := fr.loc[fv]; ok {
			env.ptrLoc[fv.Name()] = l
		}
		env.vars[fv.Name()] = e.mkT(e.value(fv), fv.Type())
	}
	res := fr.fn.Signature.Results()
	for i := 0; i < res.Len(); i++ {
		env.resNames = append(env.resNames, res.At(i).Name())
	}
	return env
}

// verifyFunc generates all obligations of one function: safety sweep, contract (if any), vacuity covers.
func verifyFunc(w *World, ss *SpecSet, fn *ssa.Function, sweep bool) *FuncResult {
	return verifyFuncMode(w, ss, fn, sweep, false)
}

func verifyFuncMode(w *World, ss *SpecSet, fn *ssa.Function, sweep, finder bool) *FuncResult {
	ct := w.contractFor(ss, fn)
	e := newEnc(w, ss, fn)
	e.sweep = sweep
	e.finder = finder
	res := &FuncResult{Fn: fn, Name: fnFull(fn), Contract: ct, Enc: e, ss: ss}
	defer func() {
		if r := recover(); r != nil {
			res.Errors = append(res.Errors, fmt.Sprintf("ENGINE-ERROR in %s: %v", fnFull(fn), r))
		}
		res.Obls = e.obls
		res.Notes = e.notes
		res.OutOfSubset = e.outOfSubset
		res.Errors = append(res.Errors, e.cerrs...)
	}()
	e.translateAxioms()
	fr := newFrame(fn, nil)
	fr.contract = ct
	e.fr = fr
	fr.cur = "true"
	e.stack = []*ssa.Function{fn}
	for _, p := range fn.Params {
		t := e.value(p)
		e.inputs = append(e.inputs, modelVar{Name: p.Name(), Term: t, Ty: p.Type(), NDecl: len(e.decls)})
	}
	// a closure's captured variables: a free variable bound to the address of a local of the enclosing function is non-nil
	if par := fn.Parent(); par != nil {
		for _, b := range par.Blocks {
			for _, in := range b.Instrs {
				mc, ok := in.(*ssa.MakeClosure)
				if !ok || mc.Fn != ssa.Value(fn) {
					continue
				}
				for i, bd := range mc.Bindings {
					if _, isAlloc := bd.(*ssa.Alloc); isAlloc && i < len(fn.FreeVars) {
						t := e.value(fn.FreeVars[i])
						e.assume(fmt.Sprintf("(> %s 0)", t))
						e.assumeAllocated(t, fn.FreeVars[i].Type())
					}
				}
			}
		}
	}
	// walker contract: listener callbacks receive a non-nil context of their own type
	if fn.Signature.Recv() != nil && len(fn.Params) == 2 && (strings.HasPrefix(fn.Name(), "Enter") || strings.HasPrefix(fn.Name(), "Exit")) {
		p := fn.Params[1]
		if db, ks := e.candKinds(p, e.value(p)); db != nil && len(ks) == 1 && strings.TrimSuffix(ks[0], "Context") == strings.TrimPrefix(strings.TrimPrefix(fn.Name(), "Enter"), "Exit") {
			e.assume(fmt.Sprintf("(not (= %s 0))", e.value(p)))
			e.assumps["tree walker contract: EnterX / ExitX are called with the non-nil XContext of a node of an error-free parse tree"] = true
		}
	}
	fr.entryMem = map[string]Term{}
	e.initMem = fr.entryMem
	var invs []Clause
	if fn.Pkg != nil {
		invs = ss.Invariants[fn.Pkg.Pkg.Path()]
	}
	if len(invs) > 0 && (ct == nil || !ct.Establishes) {
		env := e.fnEnv(fr, e.mem)
		env.oldMem = nil
		for i, iv := range invs {
			g, err := e.specBool(stateOnly(env), iv.E)
			if err != nil {
				e.contractError(fr, fmt.Sprintf("invariant %d: %v", i+1, err))
				continue
			}
			e.assume(g)
		}
	}
	if ct != nil {
		env := e.fnEnv(fr, e.mem)
		env.oldMem = nil
		for _, rq := range ct.Requires {
			g, err := e.specBool(env, rq.E)
			if err != nil {
				e.contractError(fr, "requires: "+err.Error())
				continue
			}
			e.assume(g)
		}
		if len(ct.Requires) > 0 {
			o := e.oblige("cover.entry", "false", fn.Pos(), "requires are satisfiable")
			o.Cover = true
		}
		if ct.Decreases != nil {
			m, _, err := e.specTerm(env, ct.Decreases.E)
			if err != nil {
				e.contractError(fr, "decreases: "+err.Error())
			} else {
				e.rootDec = e.define("dec_entry", "Int", m)
			}
		}
		if ct.Trusted != "" {
			e.trusted[fnFull(fn)] = ct.Trusted
			return res
		}
	}
	if fn.Blocks == nil {
		return res
	}
	entry := copyMem(e.mem)
	// every `assert before/after Callee#k` must name a call that exists (otherwise the clause would silently vanish)
	if ct != nil && (len(ct.Before) > 0 || len(ct.After) > 0 || len(ct.CoverBefore) > 0) {
		byName := map[string]int{}
		for _, b := range fn.Blocks {
			for _, in := range b.Instrs {
				if cc, ok := in.(*ssa.Call); ok {
					if n := calleeShort(cc); n != "" {
						byName[n]++
					}
				}
			}
		}
		chk := func(key string) {
			i := strings.LastIndex(key, "#")
			if i < 0 {
				return
			}
			k, _ := strconv.Atoi(key[i+1:])
			if k < 1 || k > byName[key[:i]] {
				e.contractError(fr, fmt.Sprintf("assert before/after %s: the function has %d call(s) of %s", key, byName[key[:i]], key[:i]))
			}
		}
		for key := range ct.Before {
			chk(key)
		}
		for key := range ct.After {
			chk(key)
		}
		for key := range ct.CoverBefore {
			chk(key)
		}
	}
	e.run(fr, "true")
	// keep the entry snapshot complete (components created lazily start at their initial value)
	for k, v := range entry {
		if _, ok := fr.entryMem[k]; !ok {
			fr.entryMem[k] = v
		}
	}
	e.fr = fr
	if len(fr.returns) == 0 {
		return res
	}
	var ats []Term
	var mems []map[string]Term
	for _, r := range fr.returns {
		ats = append(ats, r.at)
		mems = append(mems, r.mem)
	}
	e.mem = e.mergeMem(mems, ats)
	fr.cur = e.define("at_exit", "Bool", mkOr(ats))
	// package invariants hold again at every return
	if len(invs) > 0 {
		order := make([]int, len(fr.returns))
		for i := range order {
			order[i] = i
		}
		sort.SliceStable(order, func(a, b int) bool { return fr.returns[order[a]].pos < fr.returns[order[b]].pos })
		exitCur, exitMem := fr.cur, e.mem
		for rank, ri := range order {
			r := fr.returns[ri]
			fr.cur = r.at
			e.mem = r.mem
			envR := e.fnEnv(fr, r.mem)
			for i, iv := range invs {
				g, err := e.specBool(stateOnly(envR), iv.E)
				if err != nil {
					continue
				}
				cls := fmt.Sprintf("inv.r%d", rank+1)
				e.counts[cls] = i
				o := e.oblige(cls, g, r.pos, "invariant: "+iv.Text)
				o.Class = "inv"
			}
		}
		fr.cur, e.mem = exitCur, exitMem
	}
	if ct == nil {
		return res
	}
	env := e.fnEnv(fr, e.mem)
	nres := fn.Signature.Results().Len()
	for j := 0; j < nres; j++ {
		var t Term
		for i := len(fr.returns) - 1; i >= 0; i-- {
			if t == "" {
				t = fr.returns[i].vals[j]
			} else {
				t = fmt.Sprintf("(ite %s %s %s)", fr.returns[i].at, fr.returns[i].vals[j], t)
			}
		}
		rty := fn.Signature.Results().At(j).Type()
		env.results = append(env.results, e.mkT(e.define("result", e.so.of(rty), t), rty))
		e.resultTerms = append(e.resultTerms, modelVar{Name: fmt.Sprintf("r%d", j), Term: env.results[j].t, Ty: rty})
	}
	if fr.retLocs != nil && !fr.retLocConflict {
		env.resLoc = fr.retLocs
	}
	if len(fr.returns) == 1 {
		for i, en := range ct.Ensures {
			g, err := e.specBool(env, en.E)
			if err != nil {
				e.contractError(fr, fmt.Sprintf("ensures %d: %v", i+1, err))
				continue
			}
			e.counts["post"] = i // stable ordinal = clause index
			e.oblige("post", g, fn.Pos(), en.Text)
		}
	} else {
		// one obligation per (ensures clause, return statement): a failure names the path that violates the clause
		order := make([]int, len(fr.returns))
		for i := range order {
			order[i] = i
		}
		sort.SliceStable(order, func(a, b int) bool { return fr.returns[order[a]].pos < fr.returns[order[b]].pos })
		exitCur, exitMem := fr.cur, e.mem
		for rank, ri := range order {
			r := fr.returns[ri]
			fr.cur = r.at
			e.mem = r.mem
			envR := e.fnEnv(fr, r.mem)
			for j := 0; j < nres; j++ {
				envR.results = append(envR.results, e.mkT(r.vals[j], fn.Signature.Results().At(j).Type()))
			}
			if r.locs != nil {
				envR.resLoc = r.locs
			}
			for i, en := range ct.Ensures {
				g, err := e.specBool(envR, en.E)
				if err != nil {
					e.contractError(fr, fmt.Sprintf("ensures %d: %v", i+1, err))
					continue
				}
				cls := fmt.Sprintf("post.r%d", rank+1)
				e.counts[cls] = i
				o := e.oblige(cls, g, r.pos, en.Text)
				o.Class = "post"
			}
		}
		fr.cur, e.mem = exitCur, exitMem
	}
	// every return reachable (vacuity guard)
	for i, r := range fr.returns {
		save := fr.cur
		fr.cur = r.at
		e.counts["cover.ret"] = i
		o := e.oblige("cover.ret", "false", fn.Pos(), "return is reachable under the assumptions in force")
		o.Cover = true
		fr.cur = save
	}
	// declared frame vs computed frame
	e.checkFrame(fr, ct)
	return res
}

// checkFrame: every package-level variable the function may write (computed) must be declared in modifies.
func (e *enc) checkFrame(fr *frame, ct *Contract) {
	if ct.ModAll {
		return
	}
	fi := e.w.frameOf(fr.fn)
	if fi.fs && !ct.ModFS {
		save := fr.cur
		fr.cur = "true"
		e.oblige("frame", "false", fr.fn.Pos(), "writes files (ioutil.WriteFile / os.WriteFile) but does not declare `modifies files`")
		fr.cur = save
	}
	if ct.Pure {
		goal, text := "true", "pure function: writes no package-level state and nothing through pointers"
		if len(fi.writes) > 0 || fi.heap || fi.dynamic {
			goal = "false"
			text = "declared pure but writes package-level state / memory or calls through function values"
		}
		save := fr.cur
		fr.cur = "true"
		e.oblige("pure", goal, fr.fn.Pos(), text)
		fr.cur = save
	}
	declared := map[string]bool{}
	for _, m := range ct.Modifies {
		switch n := m.E.(type) {
		case *SIdent:
			declared[fr.fn.Pkg.Pkg.Name()+"."+n.Name] = true
		case *SField:
			if id, ok := n.X.(*SIdent); ok {
				declared[id.Name+"."+n.Name] = true
			}
		}
	}
	var missing []string
	// parameters updated in the body (maps are references, pointers are dereferenced) must be declared too
	declParam := map[string]bool{}
	declField := map[string]bool{}
	for _, m := range ct.Modifies {
		switch n := m.E.(type) {
		case *SField:
			if id, ok := n.X.(*SIdent); ok {
				declField[id.Name+"."+n.Name] = true
			}
		case *SIdent:
			declParam[n.Name] = true
		case *SUnary:
			if id, ok := n.X.(*SIdent); ok {
				declParam["*"+id.Name] = true
			}
		}
	}
	for _, b := range fr.fn.Blocks {
		for _, in := range b.Instrs {
			switch x := in.(type) {
			case *ssa.MapUpdate:
				if p, ok := x.Map.(*ssa.Parameter); ok && !declParam[p.Name()] {
					missing = append(missing, "map parameter "+p.Name())
				}
				// m := param.Field (a map inside a struct passed by value): shared with the caller
				if u, ok := x.Map.(*ssa.UnOp); ok {
					if fa, ok := u.X.(*ssa.FieldAddr); ok {
						if a, ok := fa.X.(*ssa.Alloc); ok {
							for _, p := range fr.fn.Params {
								if paramCopyCell(p) == a {
									st := a.Type().(*types.Pointer).Elem().Underlying().(*types.Struct)
									fname := p.Name() + "." + st.Field(fa.Field).Name()
									if !declField[fname] {
										missing = append(missing, "map field "+fname)
									}
								}
							}
						}
					}
				}
			case *ssa.Store:
				if p, ok := rootParam(x.Addr, 0); ok && !declParam["*"+p.Name()] {
					missing = append(missing, "*"+p.Name())
				}
			case *ssa.Call:
				if bi, ok := x.Call.Value.(*ssa.Builtin); ok && bi.Name() == "delete" {
					if p, ok := x.Call.Args[0].(*ssa.Parameter); ok && !declParam[p.Name()] {
						missing = append(missing, "map parameter "+p.Name())
					}
				}
				if cal := x.Call.StaticCallee(); cal != nil && inRepo(cal) {
					if cct, ok := e.ss.Contracts[cal.Pkg.Pkg.Path()+"."+funcKey(cal)]; ok {
						for _, m := range cct.Modifies {
							var pname string
							star := ""
							switch n := m.E.(type) {
							case *SIdent:
								pname = n.Name
							case *SUnary:
								if id, ok := n.X.(*SIdent); ok {
									pname, star = id.Name, "*"
								}
							}
							for i, cp := range cal.Params {
								if cp.Name() == pname && i < len(x.Call.Args) {
									if p, ok := rootParam(x.Call.Args[i], 0); ok && !declParam[star+p.Name()] {
										missing = append(missing, star+p.Name()+" (through "+fnFull(cal)+")")
									}
								}
							}
						}
					}
				}
			}
		}
	}
	for g := range fi.writes {
		k := g.Pkg.Pkg.Name() + "." + g.Name()
		if !declared[k] {
			missing = append(missing, k)
		}
	}
	sort.Strings(missing)
	goal := "true"
	text := "computed write set is covered by the modifies clauses"
	if len(missing) > 0 {
		goal = "false"
		text = "writes package-level state not declared in modifies: " + strings.Join(missing, ", ")
	}
	save := fr.cur
	fr.cur = "true"
	e.oblige("frame", goal, fr.fn.Pos(), text)
	fr.cur = save
}

// ---------- map / string ranges

func (e *enc) rangeInit(x *ssa.Range) {
	fr := e.fr
	if mt, ok := x.X.Type().Underlying().(*types.Map); ok {
		m := e.value(x.X)
		if p, ok := fr.prov[x.X]; ok {
			m = e.read(p)
		}
		ms := e.so.of(x.X.Type())
		st := &rangeState{mapTerm: m, msort: ms, mt: mt}
		st.dom0 = e.define("dom0", fmt.Sprintf("(Array %s Bool)", e.so.of(mt.Key())), fmt.Sprintf("(dom_%s %s)", ms, m))
		fr.rangeOf[x] = st
		return
	}
	fr.rangeOf[x] = &rangeState{mapTerm: e.value(x.X), msort: "String"}
}

func (e *enc) rangeNext(b *ssa.BasicBlock, x *ssa.Next) {
	fr := e.fr
	st := fr.rangeOf[x.Iter]
	if st == nil {
		fr.tuples[x] = []Term{e.fresh("more", "Bool"), e.fresh("k", "Int"), e.fresh("v", "Int")}
		return
	}
	more := e.fresh("more", "Bool")
	if x.IsString {
		k := e.fresh("ri", "Int")
		r := e.fresh("rune", "Int")
		e.assume(fmt.Sprintf("(=> %s (and (<= 0 %s) (< %s (str.len %s))))", more, k, k, st.mapTerm))
		e.assume(fmt.Sprintf("(=> (= (str.len %s) 0) (not %s))", st.mapTerm, more))
		// ASCII: the rune is the byte at k
		e.assume(fmt.Sprintf("(=> (and %s (< (str.to_code (str.at %s %s)) 128)) (= %s (str.to_code (str.at %s %s))))", more, st.mapTerm, k, r, st.mapTerm, k))
		fr.tuples[x] = []Term{more, k, r}
		return
	}
	ks, vs := e.so.of(st.mt.Key()), e.so.of(st.mt.Elem())
	st.nd0, st.nf0 = len(e.decls), len(e.defs)
	st.ord = fr.loopOrd[b]
	k := e.fresh("rk", ks)
	st.curKey = k
	fr.activeRange = st
	// visited set: havoced at the header (it is a loop-carried ghost)
	vis := st.visited
	if vis == "" {
		vis = e.fresh("visited", fmt.Sprintf("(Array %s Bool)", ks))
	}
	e.assume(fmt.Sprintf("(forall ((x %s)) (! (=> (select %s x) (select %s x)) :pattern ((select %s x))))", ks, vis, st.dom0, vis))
	e.assume(fmt.Sprintf("(=> %s (and (select %s %s) (not (select %s %s))))", more, st.dom0, k, vis, k))
	e.assume(fmt.Sprintf("(=> (not %s) (forall ((x %s)) (! (=> (select %s x) (select %s x)) :pattern ((select %s x)))))", more, ks, st.dom0, vis, st.dom0))
	e.assume(fmt.Sprintf("(=> (not %s) (= %s %s))", more, vis, st.dom0)) // both inclusions hold: the sets are equal (extensionality)
	// current map value (Go yields the current value for the key)
	cur := st.mapTerm
	if p, ok := fr.prov[x.Iter.(*ssa.Range).X]; ok {
		cur = e.read(p)
	}
	v := e.define("rv", vs, fmt.Sprintf("(select (val_%s %s) %s)", st.msort, cur, k))
	e.assumeWF(v, st.mt.Elem(), 1)
	e.assumeAllocated(v, st.mt.Elem())
	st.visited = vis
	fr.tuples[x] = []Term{more, k, v}
}

// ---------- effectively constant globals

func (e *enc) constInit(g *ssa.Global) (Term, bool) {
	if os := e.noConst; os {
		return "", false
	}
	w := e.w
	sts := w.globalStores()[g]
	if w.gaddr[g] {
		return "", false
	}
	elem := g.Type().(*types.Pointer).Elem()
	if len(sts) == 0 {
		switch elem.Underlying().(type) {
		case *types.Basic, *types.Slice, *types.Map:
			e.assumps[fmt.Sprintf("package-level variable %s.%s is never assigned (checked on the current tree): read as its zero value", g.Pkg.Pkg.Name(), g.Name())] = true
			return e.zero(elem), true
		}
		return "", false
	}
	if len(sts) != 1 || sts[0].st == nil || !sts[0].dir || sts[0].fn.Name() != "init" || sts[0].fn.Pkg != g.Pkg {
		return "", false
	}
	st := sts[0].st
	note := func() {
		e.assumps[fmt.Sprintf("package-level variable %s.%s is assigned only by its initialiser (checked on the current tree): read as that value", g.Pkg.Pkg.Name(), g.Name())] = true
	}
	switch v := st.Val.(type) {
	case *ssa.Const:
		note()
		return e.constant(v), true
	case *ssa.Alloc:
		// var g = &T{...}, never reassigned: a fixed, non-nil, allocated reference (the fields may change)
		if pt, ok := elem.Underlying().(*types.Pointer); ok && !isNodeType(pt) {
			note()
			t := e.fresh("gptr_"+g.Name(), "Int")
			e.assume(fmt.Sprintf("(> %s 0)", t))
			e.assumeAllocated(t, elem)
			return t, true
		}
		return "", false
	case *ssa.Slice:
		// slice literal: new [n]T; stores of constants; slice t[:]
		al, ok := v.X.(*ssa.Alloc)
		if !ok || v.Low != nil || v.High != nil {
			return "", false
		}
		arr, ok := al.Type().(*types.Pointer).Elem().Underlying().(*types.Array)
		if !ok {
			return "", false
		}
		ss := e.so.of(elem)
		es := e.so.of(arr.Elem())
		t := fmt.Sprintf("((as const (Array Int %s)) %s)", es, e.zero(arr.Elem()))
		n := 0
		for _, b := range sts[0].fn.Blocks {
			for _, in := range b.Instrs {
				s2, ok := in.(*ssa.Store)
				if !ok {
					continue
				}
				ia, ok := s2.Addr.(*ssa.IndexAddr)
				if !ok || ia.X != ssa.Value(al) {
					continue
				}
				ic, ok1 := ia.Index.(*ssa.Const)
				vc, ok2 := s2.Val.(*ssa.Const)
				if !ok1 || !ok2 {
					return "", false
				}
				t = fmt.Sprintf("(store %s %s %s)", t, e.constant(ic), e.constant(vc))
				n++
			}
		}
		if int64(n) != arr.Len() {
			return "", false
		}
		note()
		return fmt.Sprintf("(mk_%s %s %d false)", ss, t, arr.Len()), true
	}
	return "", false
}
