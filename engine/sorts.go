package main

import (
	"fmt"
	"go/types"
	"sort"
	"strings"
)

// sorts: Go type -> SMT sort name, with lazily emitted declarations (dependency order).
type sorts struct {
	decls   []string
	done    map[string]bool
	inprog  map[string]bool
	structs map[string]*types.Struct
	fields  map[string][]fieldInfo // struct sort -> fields
	byName  map[string]types.Type  // sort name -> a Go type with that sort
	anon    map[string]string
	cardAx  map[string][]string
}

type fieldInfo struct {
	name   string
	sort   string
	ty     types.Type
	opaque bool
}

func newSorts() *sorts {
	return &sorts{done: map[string]bool{}, inprog: map[string]bool{}, structs: map[string]*types.Struct{}, fields: map[string][]fieldInfo{},
		byName: map[string]types.Type{}, anon: map[string]string{}}
}

var cleaner = strings.NewReplacer("/", "_", ".", "_", "*", "P", "[", "_", "]", "_", " ", "_", "{", "_", "}", "_", "(", "_", ")", "_", ",", "_", "-", "_", ":", "_", "$", "_", "<", "_", ">", "_", "#", "_", "@", "_", ";", "_", "\"", "_", "'", "_", "\t", "_", "\n", "_", "=", "_", "|", "_", "&", "_", "!", "_", "+", "_")

func clean(s string) string { return cleaner.Replace(s) }

// node-like interface and pointer types: tree nodes of ANTLR / go/ast are ids (Int) with uninterpreted structure.
func isNodeType(t types.Type) bool {
	s := t.String()
	return strings.Contains(s, "antlr4/runtime/Go/antlr") ||
		strings.Contains(s, "/languages/") || strings.HasPrefix(s, "go/token.")
}

// go/ast nodes are plain data: structs with exported fields, reached through pointers and the Expr / Stmt / Node
// interfaces. They are modelled like the repository's own structs (fields transparent, one heap per struct type).
func isGoAst(t types.Type) bool {
	s := t.String()
	return strings.HasPrefix(s, "go/ast.") || strings.HasPrefix(s, "*go/ast.")
}

// plain data structs of other modules whose fields the repository reads and writes
var transparentExt = map[string]bool{
	"github.com/boyter/scc/processor.LanguageSummary": true,
	"github.com/boyter/scc/processor.FileJob":         true,
}

func (s *sorts) of(t types.Type) string {
	switch u := t.(type) {
	case *types.Named:
		if isNodeType(u) {
			if _, ok := u.Underlying().(*types.Struct); ok {
				if strings.Contains(u.Obj().Pkg().Path(), "/languages/") && strings.HasSuffix(u.Obj().Name(), "Context") {
					return "Int" // a rule context copied by value denotes the same tree node: its identity
				}
				return s.opq(u.Obj().Pkg().Name() + "_" + u.Obj().Name())
			}
			if b, ok := u.Underlying().(*types.Basic); ok {
				return s.of(b)
			}
			return "Int"
		}
		if _, ok := u.Underlying().(*types.Struct); ok && u.Obj().Pkg() != nil && !strings.HasPrefix(u.Obj().Pkg().Path(), modPath) && !transparentExt[u.Obj().Pkg().Path()+"."+u.Obj().Name()] && u.Obj().Pkg().Path() != "go/ast" {
			// struct types of other modules / the standard library are opaque values
			return s.opq(u.Obj().Pkg().Name() + "_" + u.Obj().Name())
		}
		if st, ok := u.Underlying().(*types.Struct); ok {
			name := structSortName(u)
			if !s.done[name] && !s.inprog[name] {
				// deterministic cycle breaking: start from the canonically smallest struct of the same cycle
				if r := canonicalRoot(u); r != nil && r != u {
					rn := structSortName(r)
					if !s.done[rn] && !s.inprog[rn] {
						s.of(r)
					}
				}
			}
			s.declStruct(name, st)
			s.byName[name] = t
			return name
		}
		if _, ok := u.Underlying().(*types.Interface); ok {
			return "Int"
		}
		return s.of(u.Underlying())
	case *types.Alias:
		return s.of(types.Unalias(u))
	case *types.Basic:
		switch {
		case u.Info()&types.IsBoolean != 0:
			return "Bool"
		case u.Info()&types.IsInteger != 0:
			return "Int"
		case u.Info()&types.IsString != 0:
			return "String"
		case u.Info()&types.IsFloat != 0:
			return "Real"
		case u.Kind() == types.UntypedNil:
			return "Int"
		}
		return s.opq("basic_" + u.Name())
	case *types.Slice:
		e := s.of(u.Elem())
		name := "Slice_" + clean(e)
		if !s.done[name] {
			s.done[name] = true
			s.decls = append(s.decls, fmt.Sprintf("(declare-datatypes ((%s 0)) (((mk_%s (arr_%s (Array Int %s)) (len_%s Int) (nil_%s Bool)))))", name, name, name, e, name, name))
		}
		s.byName[name] = t
		return name
	case *types.Array:
		e := s.of(u.Elem())
		return "(Array Int " + e + ")"
	case *types.Map:
		k, v := s.of(u.Key()), s.of(u.Elem())
		name := "Map_" + clean(k) + "_" + clean(v)
		if !s.done[name] {
			s.done[name] = true
			s.decls = append(s.decls, fmt.Sprintf("(declare-datatypes ((%s 0)) (((mk_%s (dom_%s (Array %s Bool)) (val_%s (Array %s %s)) (nil_%s Bool)))))", name, name, name, k, name, k, v, name))
			s.decls = append(s.decls, fmt.Sprintf("(declare-fun Card_%s ((Array %s Bool)) Int)", name, k))
			if s.cardAx == nil {
				s.cardAx = map[string][]string{}
			}
			s.cardAx[name] = []string{
				fmt.Sprintf("(assert (forall ((d (Array %s Bool))) (! (>= (Card_%s d) 0) :pattern ((Card_%s d)))))", k, name, name),
				fmt.Sprintf("(assert (= (Card_%s ((as const (Array %s Bool)) false)) 0))", name, k),
				fmt.Sprintf("(assert (forall ((d (Array %s Bool)) (k %s)) (! (= (Card_%s (store d k true)) (+ (Card_%s d) (ite (select d k) 0 1))) :pattern ((Card_%s (store d k true))))))", k, k, name, name, name),
				fmt.Sprintf("(assert (forall ((d (Array %s Bool)) (k %s)) (! (=> (select d k) (> (Card_%s d) 0)) :pattern ((Card_%s d) (select d k)))))", k, k, name, name),
			}
		}
		s.byName[name] = t
		return name
	case *types.Pointer:
		if !isNodeType(u) {
			s.of(u.Elem())
		}
		return "Int"
	case *types.Struct:
		if n, ok := s.anon[u.String()]; ok {
			return n
		}
		name := fmt.Sprintf("S_anon%d", len(s.anon))
		s.anon[u.String()] = name
		s.declStruct(name, u)
		s.byName[name] = t
		return name
	case *types.Interface:
		return "Int"
	case *types.Tuple:
		return s.opq("tuple")
	case *types.Signature:
		return "Int"
	case *types.Chan:
		return "Int"
	case *types.TypeParam:
		return s.opq("typeparam")
	}
	return s.opq(clean(t.String()))
}

func (s *sorts) opq(hint string) string {
	name := "U_" + clean(hint)
	if !s.done[name] {
		s.done[name] = true
		s.decls = append(s.decls, fmt.Sprintf("(declare-sort %s 0)", name))
	}
	return name
}

// mentions: does t directly contain (through slices, arrays, maps, aliases and anonymous structs, but not through
// the fields of another named struct) the struct target?  Used for DFS back-edge detection in declStruct.
func mentions(t types.Type, target *types.Struct, seen map[types.Type]bool) bool {
	if seen[t] {
		return false
	}
	seen[t] = true
	switch u := t.(type) {
	case *types.Named:
		if isNodeType(u) {
			return false
		}
		if st, ok := u.Underlying().(*types.Struct); ok {
			return st == target
		}
		return mentions(u.Underlying(), target, seen)
	case *types.Alias:
		return mentions(types.Unalias(u), target, seen)
	case *types.Struct:
		if u == target {
			return true
		}
		for i := 0; i < u.NumFields(); i++ {
			if mentions(u.Field(i).Type(), target, seen) {
				return true
			}
		}
	case *types.Slice:
		return mentions(u.Elem(), target, seen)
	case *types.Array:
		return mentions(u.Elem(), target, seen)
	case *types.Map:
		return mentions(u.Key(), target, seen) || mentions(u.Elem(), target, seen)
	}
	return false
}

func (s *sorts) declStruct(name string, st *types.Struct) {
	if s.done[name] || s.inprog[name] {
		return
	}
	s.inprog[name] = true
	s.structs[name] = st
	var fs []fieldInfo
	for i := 0; i < st.NumFields(); i++ {
		f := st.Field(i)
		var fsort string
		cyc := false
		var others []string
		for other := range s.inprog {
			others = append(others, other)
		}
		sort.Strings(others)
		for _, other := range others {
			if mentions(f.Type(), s.structs[other], map[types.Type]bool{}) {
				cyc = true
			}
		}
		if cyc {
			fsort = s.opq(name + "_" + f.Name())
		} else {
			fsort = s.of(f.Type())
		}
		fname := f.Name()
		if fname == "_" || fname == "" {
			fname = fmt.Sprintf("blank%d", i)
		}
		fs = append(fs, fieldInfo{fname, fsort, f.Type(), cyc})
	}
	delete(s.inprog, name)
	s.done[name] = true
	s.fields[name] = fs
	var parts []string
	for _, f := range fs {
		parts = append(parts, fmt.Sprintf("(%s.%s %s)", name, f.name, f.sort))
	}
	if len(parts) == 0 {
		s.decls = append(s.decls, fmt.Sprintf("(declare-datatypes ((%s 0)) (((mk_%s))))", name, name))
	} else {
		s.decls = append(s.decls, fmt.Sprintf("(declare-datatypes ((%s 0)) (((mk_%s %s))))", name, name, strings.Join(parts, " ")))
	}
}

func sortedKeys[V any](m map[string]V) []string {
	var ks []string
	for k := range m {
		ks = append(ks, k)
	}
	sort.Strings(ks)
	return ks
}

func structSortName(u *types.Named) string {
	return "T_" + clean(u.Obj().Pkg().Name()+"."+u.Obj().Name())
}

func namedStructsIn(t types.Type, out map[*types.Named]bool, seen map[types.Type]bool) {
	if seen[t] {
		return
	}
	seen[t] = true
	switch u := t.(type) {
	case *types.Named:
		if isNodeType(u) {
			return
		}
		if st, ok := u.Underlying().(*types.Struct); ok {
			if out[u] {
				return
			}
			out[u] = true
			for i := 0; i < st.NumFields(); i++ {
				namedStructsIn(st.Field(i).Type(), out, seen)
			}
			return
		}
		namedStructsIn(u.Underlying(), out, seen)
	case *types.Alias:
		namedStructsIn(types.Unalias(u), out, seen)
	case *types.Struct:
		for i := 0; i < u.NumFields(); i++ {
			namedStructsIn(u.Field(i).Type(), out, seen)
		}
	case *types.Slice:
		namedStructsIn(u.Elem(), out, seen)
	case *types.Array:
		namedStructsIn(u.Elem(), out, seen)
	case *types.Map:
		namedStructsIn(u.Key(), out, seen)
		namedStructsIn(u.Elem(), out, seen)
	}
}

// canonicalRoot: among the named structs on a by-value cycle with u, the one with the smallest "pkgpath.name".
func canonicalRoot(u *types.Named) *types.Named {
	reach := map[*types.Named]bool{}
	st := u.Underlying().(*types.Struct)
	for i := 0; i < st.NumFields(); i++ {
		namedStructsIn(st.Field(i).Type(), reach, map[types.Type]bool{})
	}
	if !reach[u] {
		return nil
	}
	best := u
	key := func(n *types.Named) string { return n.Obj().Pkg().Path() + "." + n.Obj().Name() }
	for r := range reach {
		if r == u {
			continue
		}
		back := map[*types.Named]bool{}
		rs := r.Underlying().(*types.Struct)
		for i := 0; i < rs.NumFields(); i++ {
			namedStructsIn(rs.Field(i).Type(), back, map[types.Type]bool{})
		}
		if back[u] && key(r) < key(best) {
			best = r
		}
	}
	return best
}
