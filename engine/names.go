package main

import (
	"encoding/json"
	"fmt"
	"go/ast"
	"go/types"
	"os"
	"path/filepath"
	"sort"
	"strconv"
	"strings"

	"golang.org/x/tools/go/ssa"
)

// Contracts live in a separate comment-only file and name parameters and locals of the function they annotate.
// A pure renaming of such a variable would otherwise leave the contract dangling (reported as `contract#k`), which is an
// alarm on code whose behaviour has not changed. spec/locals.json records, per function under contract, the declared
// variables (receiver, parameters, results, locals; in source order, with their types) as they were when the contract was
// written. On every run the current list is aligned with the recorded one; where the two differ only by names (same
// positions, same types) the contract is read with the new names. This can never make a proof pass that should not:
// whatever the clauses end up naming, they are proved or not proved on the code as it is.

type nameEntry struct {
	Name string `json:"n"`
	Type string `json:"t"`
	Sig  bool   `json:"s,omitempty"` // declared in the signature (receiver, parameter, named result)
}

func (w *World) fnNames(fn *ssa.Function) []nameEntry {
	top := fn
	for top.Parent() != nil {
		top = top.Parent()
	}
	if top.Pkg == nil || top.Syntax() == nil {
		return nil
	}
	pkg := w.ByPath[top.Pkg.Pkg.Path()]
	if pkg == nil || pkg.TypesInfo == nil {
		return nil
	}
	qual := func(p *types.Package) string { return p.Name() }
	var out []nameEntry
	bodyStart := top.Syntax().End()
	switch d := top.Syntax().(type) {
	case *ast.FuncDecl:
		if d.Body != nil {
			bodyStart = d.Body.Lbrace
		}
	case *ast.FuncLit:
		bodyStart = d.Body.Lbrace
	}
	ast.Inspect(top.Syntax(), func(n ast.Node) bool {
		id, ok := n.(*ast.Ident)
		if !ok || id.Name == "_" {
			return true
		}
		v, ok := pkg.TypesInfo.Defs[id].(*types.Var)
		if !ok || v == nil || v.IsField() {
			return true
		}
		out = append(out, nameEntry{Name: id.Name, Type: types.TypeString(v.Type(), qual), Sig: id.Pos() < bodyStart})
		return true
	})
	return out
}

func localsFile() string { return filepath.Join(verifDir, "spec", "locals.json") }

type loopEntry struct {
	Kind  string `json:"k"` // range / for
	Depth int    `json:"d"`
	Over  string `json:"o,omitempty"` // type of the ranged-over expression
	Sub   string `json:"s,omitempty"` // signature of the loops nested in this one
}

type recorded struct {
	Vars  map[string][]nameEntry `json:"vars"`
	Loops map[string][]loopEntry `json:"loops"`
}

// fnLoops: the loops of one function (nested function literals excluded: they are functions of their own) in source
// order, which is the order the engine numbers them in. nil when the SSA form does not have one loop per statement.
func (w *World) fnLoops(fn *ssa.Function) []loopEntry {
	if fn.Pkg == nil || fn.Syntax() == nil {
		return nil
	}
	pkg := w.ByPath[fn.Pkg.Pkg.Path()]
	if pkg == nil || pkg.TypesInfo == nil {
		return nil
	}
	var body *ast.BlockStmt
	switch d := fn.Syntax().(type) {
	case *ast.FuncDecl:
		body = d.Body
	case *ast.FuncLit:
		body = d.Body
	}
	if body == nil {
		return nil
	}
	qual := func(p *types.Package) string { return p.Name() }
	var out []loopEntry
	var walk func(n ast.Node, depth int) string
	walk = func(n ast.Node, depth int) string {
		sig := ""
		ast.Inspect(n, func(c ast.Node) bool {
			if c == n || c == nil {
				return true
			}
			switch l := c.(type) {
			case *ast.FuncLit:
				return false
			case *ast.RangeStmt:
				e := loopEntry{Kind: "range", Depth: depth}
				if t := pkg.TypesInfo.TypeOf(l.X); t != nil {
					e.Over = types.TypeString(t, qual)
				}
				i := len(out)
				out = append(out, e)
				out[i].Sub = walk(l.Body, depth+1)
				sig += "R<" + e.Over + ">(" + out[i].Sub + ")"
				return false
			case *ast.ForStmt:
				i := len(out)
				out = append(out, loopEntry{Kind: "for", Depth: depth})
				out[i].Sub = walk(l.Body, depth+1)
				sig += "F(" + out[i].Sub + ")"
				return false
			}
			return true
		})
		return sig
	}
	walk(body, 0)
	heads := map[*ssa.BasicBlock]bool{}
	for _, b := range fn.Blocks {
		for _, sc := range b.Succs {
			if sc.Dominates(b) {
				heads[sc] = true
			}
		}
	}
	if len(heads) != len(out) {
		return nil
	}
	// the engine numbers loops by the position of their first instruction, which can differ from the order of the
	// statements (a loop appending to a variable declared early): no renumbering is attempted then
	fr := newFrame(fn, nil)
	fr.analyzeLoops()
	byOrd := make([]*ssa.BasicBlock, len(out)+1)
	for h, k := range fr.loopOrd {
		if k >= 1 && k <= len(out) {
			byOrd[k] = h
		}
	}
	for k := 1; k <= len(out); k++ {
		h := byOrd[k]
		if h == nil {
			return nil
		}
		depth := 0
		for hh := range fr.loopOrd {
			if hh != h && fr.loopBlocks(hh)[h] {
				depth++
			}
		}
		if depth != out[k-1].Depth {
			return nil
		}
		_, isRange := firstRangeOrNext(h)
		if isRange != (out[k-1].Kind == "range") {
			return nil
		}
	}
	return out
}

// firstRangeOrNext: does the header belong to a range loop (hidden index phi, or a map / string iterator)?
func firstRangeOrNext(h *ssa.BasicBlock) (ssa.Instruction, bool) {
	for _, in := range h.Instrs {
		if phi, ok := in.(*ssa.Phi); ok && phi.Comment == "rangeindex" {
			return in, true
		}
		if _, ok := in.(*ssa.Next); ok {
			return in, true
		}
	}
	return nil, false
}

// alignLoops maps recorded loop ordinals to current ones (1-based). Loops with identical signatures anchor the alignment;
// a gap with as many loops on both sides, pairwise of the same kind and depth, is matched in order.
func alignLoops(base, cur []loopEntry) map[int]int {
	n, m := len(base), len(cur)
	l := make([][]int, n+1)
	for i := range l {
		l[i] = make([]int, m+1)
	}
	for i := n - 1; i >= 0; i-- {
		for j := m - 1; j >= 0; j-- {
			if base[i] == cur[j] {
				l[i][j] = l[i+1][j+1] + 1
			} else if l[i+1][j] >= l[i][j+1] {
				l[i][j] = l[i+1][j]
			} else {
				l[i][j] = l[i][j+1]
			}
		}
	}
	out := map[int]int{}
	gap := func(i0, i1, j0, j1 int) {
		if i1-i0 != j1-j0 {
			return
		}
		for k := 0; k < i1-i0; k++ {
			if base[i0+k].Kind != cur[j0+k].Kind || base[i0+k].Depth != cur[j0+k].Depth {
				return
			}
		}
		for k := 0; k < i1-i0; k++ {
			out[i0+k+1] = j0 + k + 1
		}
	}
	i, j, gi, gj := 0, 0, 0, 0
	for i < n && j < m {
		if base[i] == cur[j] {
			gap(gi, i, gj, j)
			out[i+1] = j + 1
			i++
			j++
			gi, gj = i, j
		} else if l[i+1][j] >= l[i][j+1] {
			i++
		} else {
			j++
		}
	}
	gap(gi, n, gj, m)
	return out
}

// writeLocals records the declared variables of every function under contract (run by hand after contracts change).
func writeLocals(w *World, ss *SpecSet) error {
	out := map[string][]nameEntry{}
	loops := map[string][]loopEntry{}
	for k, ct := range ss.Contracts {
		if fn, ok := w.Funcs[k]; ok && len(ct.Loops) > 0 {
			if ls := w.fnLoops(fn); ls != nil {
				loops[k] = ls
			}
		}
		top := k
		if i := strings.Index(k[strings.LastIndex(k, "/")+1:], "$"); i >= 0 {
			top = k[:strings.LastIndex(k, "/")+1+i]
		}
		if fn, ok := w.Funcs[top]; ok {
			out[top] = w.fnNames(fn)
		}
	}
	b, err := json.MarshalIndent(recorded{Vars: out, Loops: loops}, "", " ")
	if err != nil {
		return err
	}
	return os.WriteFile(localsFile(), append(b, '\n'), 0644)
}

// alignNames: renamings between a recorded and a current variable list. Entries equal in name and type anchor the
// alignment (longest common subsequence); a gap with the same number of entries and pairwise equal types on both sides
// is a run of renamings. A recorded name that would map to two different names is left alone.
func alignNames(base, cur []nameEntry) (all, sig map[string]string) {
	n, m := len(base), len(cur)
	l := make([][]int, n+1)
	for i := range l {
		l[i] = make([]int, m+1)
	}
	for i := n - 1; i >= 0; i-- {
		for j := m - 1; j >= 0; j-- {
			if base[i] == cur[j] {
				l[i][j] = l[i+1][j+1] + 1
			} else if l[i+1][j] >= l[i][j+1] {
				l[i][j] = l[i+1][j]
			} else {
				l[i][j] = l[i][j+1]
			}
		}
	}
	ren := map[string]string{}
	sig = map[string]string{}
	amb := map[string]bool{}
	gap := func(i0, i1, j0, j1 int) {
		if i1-i0 != j1-j0 {
			return
		}
		for k := 0; k < i1-i0; k++ {
			if base[i0+k].Type != cur[j0+k].Type || base[i0+k].Sig != cur[j0+k].Sig {
				return
			}
		}
		for k := 0; k < i1-i0; k++ {
			b, c := base[i0+k].Name, cur[j0+k].Name
			if old, ok := ren[b]; ok && old != c {
				amb[b] = true
			}
			ren[b] = c
			if base[i0+k].Sig {
				sig[b] = c
			}
		}
	}
	i, j, gi, gj := 0, 0, 0, 0
	for i < n && j < m {
		if base[i] == cur[j] {
			gap(gi, i, gj, j)
			i++
			j++
			gi, gj = i, j
		} else if l[i+1][j] >= l[i][j+1] {
			i++
		} else {
			j++
		}
	}
	gap(gi, n, gj, m)
	// a recorded name that is still declared somewhere with the same type keeps its meaning only if every occurrence moved
	stay := map[string]bool{}
	for _, c := range cur {
		stay[c.Name] = true
	}
	for b := range ren {
		if amb[b] {
			delete(ren, b)
			delete(sig, b)
		}
	}
	_ = stay
	return ren, sig
}

// healRenames rewrites the contracts of functions whose variables were renamed since spec/locals.json was recorded.
func healRenames(w *World, ss *SpecSet) []string {
	b, err := os.ReadFile(localsFile())
	if err != nil {
		return nil
	}
	var all recorded
	if json.Unmarshal(b, &all) != nil {
		return nil
	}
	rec := all.Vars
	var notes []string
	keys := make([]string, 0, len(ss.Contracts))
	for k := range ss.Contracts {
		keys = append(keys, k)
	}
	sort.Strings(keys)
	cache := map[string][2]map[string]string{}
	for _, k := range keys {
		// loops renumbered by a loop that was added, removed or moved out of the function
		if base, ok := all.Loops[k]; ok {
			if fn, ok := w.Funcs[k]; ok {
				if cur := w.fnLoops(fn); cur != nil {
					mp := alignLoops(base, cur)
					moved := false
					for a, c := range mp {
						if a != c {
							moved = true
						}
					}
					if moved || len(base) != len(cur) {
						if desc := ss.Contracts[k].remapLoops(mp); desc != "" {
							notes = append(notes, fmt.Sprintf("contract of %s read with renumbered loops: %s", k, desc))
						}
					}
				}
			}
		}
		top := k
		if i := strings.Index(k[strings.LastIndex(k, "/")+1:], "$"); i >= 0 {
			top = k[:strings.LastIndex(k, "/")+1+i]
		}
		base, ok := rec[top]
		fn, ok2 := w.Funcs[top]
		if !ok || !ok2 {
			continue
		}
		rs, done := cache[top]
		if !done {
			a, s := alignNames(base, w.fnNames(fn))
			rs = [2]map[string]string{a, s}
			cache[top] = rs
		}
		ren := rs[0]
		if len(ren) == 0 {
			continue
		}
		ct := ss.Contracts[k]
		// pre- and post-conditions of a declared function see its signature only (and `result`); those of a closure also
		// see the variables it captures
		outer := rs[1]
		if k != top {
			outer = map[string]string{}
			for a, c := range ren {
				if a != "result" {
					outer[a] = c
				}
			}
		}
		if ct.rename(ren, outer, ss) {
			var ps []string
			for a, c := range ren {
				ps = append(ps, a+"→"+c)
			}
			sort.Strings(ps)
			notes = append(notes, fmt.Sprintf("contract of %s read with renamed variables: %s", k, strings.Join(ps, ", ")))
		}
	}
	return notes
}

func (ct *Contract) rename(inner, outer map[string]string, ss *SpecSet) bool {
	ren := outer
	changed := false
	var rn func(e SExpr, bound map[string]bool) SExpr
	name := func(s string, bound map[string]bool) string {
		base, suf := s, ""
		if strings.HasSuffix(s, "@pre") {
			base, suf = strings.TrimSuffix(s, "@pre"), "@pre"
		} else if strings.HasSuffix(s, "@in") {
			base, suf = strings.TrimSuffix(s, "@in"), "@in"
		}
		if bound[base] {
			return s
		}
		if n, ok := ren[base]; ok {
			changed = true
			return n + suf
		}
		return s
	}
	list := func(es []SExpr, bound map[string]bool) []SExpr {
		out := make([]SExpr, len(es))
		for i, x := range es {
			out[i] = rn(x, bound)
		}
		return out
	}
	rn = func(e SExpr, bound map[string]bool) SExpr {
		switch n := e.(type) {
		case *SIdent:
			return &SIdent{Name: name(n.Name, bound)}
		case *SUnary:
			return &SUnary{Op: n.Op, X: rn(n.X, bound)}
		case *SBinary:
			return &SBinary{Op: n.Op, X: rn(n.X, bound), Y: rn(n.Y, bound)}
		case *SCall:
			f := n.Fun
			if _, isSpec := ss.Funcs[f]; !isSpec {
				if _, ok := ren[f]; ok && !bound[f] {
					f = name(f, bound)
				}
			}
			return &SCall{Fun: f, Args: list(n.Args, bound)}
		case *SIndex:
			return &SIndex{X: rn(n.X, bound), I: rn(n.I, bound)}
		case *SSlice:
			out := &SSlice{X: rn(n.X, bound)}
			if n.Lo != nil {
				out.Lo = rn(n.Lo, bound)
			}
			if n.Hi != nil {
				out.Hi = rn(n.Hi, bound)
			}
			return out
		case *SField:
			return &SField{X: rn(n.X, bound), Name: n.Name}
		case *SQuant:
			b2 := map[string]bool{}
			for k := range bound {
				b2[k] = true
			}
			for _, v := range n.Vars {
				b2[v.Name] = true
			}
			out := &SQuant{Forall: n.Forall, Vars: n.Vars, Body: rn(n.Body, b2)}
			for _, t := range n.Trig {
				out.Trig = append(out.Trig, list(t, b2))
			}
			return out
		case *SCond:
			return &SCond{C: rn(n.C, bound), A: rn(n.A, bound), B: rn(n.B, bound)}
		case *STypeAssert:
			return &STypeAssert{X: rn(n.X, bound), Ty: n.Ty, Test: n.Test}
		}
		return e
	}
	cl := func(cs []Clause) {
		for i := range cs {
			if cs[i].E != nil {
				cs[i].E = rn(cs[i].E, map[string]bool{})
			}
		}
	}
	cl(ct.Requires)
	cl(ct.Ensures)
	cl(ct.Modifies)
	if ct.Decreases != nil && ct.Decreases.E != nil {
		ct.Decreases.E = rn(ct.Decreases.E, map[string]bool{})
	}
	ren = inner
	cl(ct.AtReturn)
	for _, l := range ct.Loops {
		cl(l.Invariants)
		cl(l.Asserts)
		if l.Decreases != nil && l.Decreases.E != nil {
			l.Decreases.E = rn(l.Decreases.E, map[string]bool{})
		}
	}
	for _, m := range []map[string][]Clause{ct.After, ct.Before, ct.CoverBefore} {
		for _, cs := range m {
			cl(cs)
		}
	}
	for _, cs := range ct.Asserts {
		cl(cs)
	}
	return changed
}

// remapLoops renumbers the loop clauses (and the #i<k> references) of a contract; a recorded loop without a current
// counterpart keeps a number no loop has, so its clauses are reported as dangling.
func (ct *Contract) remapLoops(mp map[int]int) string {
	var desc []string
	tr := func(k int) int {
		if c, ok := mp[k]; ok {
			return c
		}
		return 1000 + k
	}
	nl := map[int]*LoopSpec{}
	var ks []int
	for k := range ct.Loops {
		ks = append(ks, k)
	}
	sort.Ints(ks)
	for _, k := range ks {
		nl[tr(k)] = ct.Loops[k]
		if tr(k) != k {
			if tr(k) >= 1000 {
				desc = append(desc, fmt.Sprintf("%d→(gone)", k))
			} else {
				desc = append(desc, fmt.Sprintf("%d→%d", k, tr(k)))
			}
		}
	}
	if len(desc) == 0 {
		return ""
	}
	ct.Loops = nl
	var rn func(e SExpr) SExpr
	list := func(es []SExpr) []SExpr {
		out := make([]SExpr, len(es))
		for i, x := range es {
			out[i] = rn(x)
		}
		return out
	}
	rn = func(e SExpr) SExpr {
		switch n := e.(type) {
		case *SHash:
			if strings.HasPrefix(n.Name, "i") && len(n.Name) > 1 {
				if k, err := strconv.Atoi(n.Name[1:]); err == nil {
					return &SHash{Name: fmt.Sprintf("i%d", tr(k))}
				}
			}
			return n
		case *SUnary:
			return &SUnary{Op: n.Op, X: rn(n.X)}
		case *SBinary:
			return &SBinary{Op: n.Op, X: rn(n.X), Y: rn(n.Y)}
		case *SCall:
			return &SCall{Fun: n.Fun, Args: list(n.Args)}
		case *SIndex:
			return &SIndex{X: rn(n.X), I: rn(n.I)}
		case *SSlice:
			out := &SSlice{X: rn(n.X)}
			if n.Lo != nil {
				out.Lo = rn(n.Lo)
			}
			if n.Hi != nil {
				out.Hi = rn(n.Hi)
			}
			return out
		case *SField:
			return &SField{X: rn(n.X), Name: n.Name}
		case *SQuant:
			out := &SQuant{Forall: n.Forall, Vars: n.Vars, Body: rn(n.Body)}
			for _, t := range n.Trig {
				out.Trig = append(out.Trig, list(t))
			}
			return out
		case *SCond:
			return &SCond{C: rn(n.C), A: rn(n.A), B: rn(n.B)}
		case *STypeAssert:
			return &STypeAssert{X: rn(n.X), Ty: n.Ty, Test: n.Test}
		}
		return e
	}
	cl := func(cs []Clause) {
		for i := range cs {
			if cs[i].E != nil {
				cs[i].E = rn(cs[i].E)
			}
		}
	}
	cl(ct.AtReturn)
	for _, l := range ct.Loops {
		cl(l.Invariants)
		cl(l.Asserts)
		if l.Decreases != nil && l.Decreases.E != nil {
			l.Decreases.E = rn(l.Decreases.E)
		}
	}
	for _, m := range []map[string][]Clause{ct.After, ct.Before, ct.CoverBefore} {
		for _, cs := range m {
			cl(cs)
		}
	}
	return strings.Join(desc, ", ")
}
