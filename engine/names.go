package main

import (
	"encoding/json"
	"fmt"
	"go/ast"
	"go/types"
	"os"
	"path/filepath"
	"sort"
	"strings"

	"golang.org/x/tools/go/ssa"
)

// Contracts live in a separate comment-only file and name parameters and locals of the function they annotate.
// A pure renaming of such a variable would otherwise leave the contract dangling (reported as `contract#k`), which is an
// alarm on code whose behaviour has not changed. spec/locals.json records, per function under contract, the declared
// variables (receiver, parameters, results, locals; in source order, with their types) as they were when the contract was
// written. On every run the current list is aligned with the recorded one; where the two differ only by names (same
// positions, same types) the contract is read with the new names. This can never make a proof pass that should not:
// whatever the clauses end up naming, they are proved or not proved on the code as it is.

type nameEntry struct {
	Name string `json:"n"`
	Type string `json:"t"`
	Sig  bool   `json:"s,omitempty"` // declared in the signature (receiver, parameter, named result)
}

func (w *World) fnNames(fn *ssa.Function) []nameEntry {
	top := fn
	for top.Parent() != nil {
		top = top.Parent()
	}
	if top.Pkg == nil || top.Syntax() == nil {
		return nil
	}
	pkg := w.ByPath[top.Pkg.Pkg.Path()]
	if pkg == nil || pkg.TypesInfo == nil {
		return nil
	}
	qual := func(p *types.Package) string { return p.Name() }
	var out []nameEntry
	bodyStart := top.Syntax().End()
	switch d := top.Syntax().(type) {
	case *ast.FuncDecl:
		if d.Body != nil {
			bodyStart = d.Body.Lbrace
		}
	case *ast.FuncLit:
		bodyStart = d.Body.Lbrace
	}
	ast.Inspect(top.Syntax(), func(n ast.Node) bool {
		id, ok := n.(*ast.Ident)
		if !ok || id.Name == "_" {
			return true
		}
		v, ok := pkg.TypesInfo.Defs[id].(*types.Var)
		if !ok || v == nil || v.IsField() {
			return true
		}
		out = append(out, nameEntry{Name: id.Name, Type: types.TypeString(v.Type(), qual), Sig: id.Pos() < bodyStart})
		return true
	})
	return out
}

func localsFile() string { return filepath.Join(verifDir, "spec", "locals.json") }

// writeLocals records the declared variables of every function under contract (run by hand after contracts change).
func writeLocals(w *World, ss *SpecSet) error {
	out := map[string][]nameEntry{}
	for k := range ss.Contracts {
		top := k
		if i := strings.Index(k[strings.LastIndex(k, "/")+1:], "$"); i >= 0 {
			top = k[:strings.LastIndex(k, "/")+1+i]
		}
		if fn, ok := w.Funcs[top]; ok {
			out[top] = w.fnNames(fn)
		}
	}
	b, err := json.MarshalIndent(out, "", " ")
	if err != nil {
		return err
	}
	return os.WriteFile(localsFile(), append(b, '\n'), 0644)
}

// alignNames: renamings between a recorded and a current variable list. Entries equal in name and type anchor the
// alignment (longest common subsequence); a gap with the same number of entries and pairwise equal types on both sides
// is a run of renamings. A recorded name that would map to two different names is left alone.
func alignNames(base, cur []nameEntry) (all, sig map[string]string) {
	n, m := len(base), len(cur)
	l := make([][]int, n+1)
	for i := range l {
		l[i] = make([]int, m+1)
	}
	for i := n - 1; i >= 0; i-- {
		for j := m - 1; j >= 0; j-- {
			if base[i] == cur[j] {
				l[i][j] = l[i+1][j+1] + 1
			} else if l[i+1][j] >= l[i][j+1] {
				l[i][j] = l[i+1][j]
			} else {
				l[i][j] = l[i][j+1]
			}
		}
	}
	ren := map[string]string{}
	sig = map[string]string{}
	amb := map[string]bool{}
	gap := func(i0, i1, j0, j1 int) {
		if i1-i0 != j1-j0 {
			return
		}
		for k := 0; k < i1-i0; k++ {
			if base[i0+k].Type != cur[j0+k].Type || base[i0+k].Sig != cur[j0+k].Sig {
				return
			}
		}
		for k := 0; k < i1-i0; k++ {
			b, c := base[i0+k].Name, cur[j0+k].Name
			if old, ok := ren[b]; ok && old != c {
				amb[b] = true
			}
			ren[b] = c
			if base[i0+k].Sig {
				sig[b] = c
			}
		}
	}
	i, j, gi, gj := 0, 0, 0, 0
	for i < n && j < m {
		if base[i] == cur[j] {
			gap(gi, i, gj, j)
			i++
			j++
			gi, gj = i, j
		} else if l[i+1][j] >= l[i][j+1] {
			i++
		} else {
			j++
		}
	}
	gap(gi, n, gj, m)
	// a recorded name that is still declared somewhere with the same type keeps its meaning only if every occurrence moved
	stay := map[string]bool{}
	for _, c := range cur {
		stay[c.Name] = true
	}
	for b := range ren {
		if amb[b] {
			delete(ren, b)
			delete(sig, b)
		}
	}
	_ = stay
	return ren, sig
}

// healRenames rewrites the contracts of functions whose variables were renamed since spec/locals.json was recorded.
func healRenames(w *World, ss *SpecSet) []string {
	b, err := os.ReadFile(localsFile())
	if err != nil {
		return nil
	}
	var rec map[string][]nameEntry
	if json.Unmarshal(b, &rec) != nil {
		return nil
	}
	var notes []string
	keys := make([]string, 0, len(ss.Contracts))
	for k := range ss.Contracts {
		keys = append(keys, k)
	}
	sort.Strings(keys)
	cache := map[string][2]map[string]string{}
	for _, k := range keys {
		top := k
		if i := strings.Index(k[strings.LastIndex(k, "/")+1:], "$"); i >= 0 {
			top = k[:strings.LastIndex(k, "/")+1+i]
		}
		base, ok := rec[top]
		fn, ok2 := w.Funcs[top]
		if !ok || !ok2 {
			continue
		}
		rs, done := cache[top]
		if !done {
			a, s := alignNames(base, w.fnNames(fn))
			rs = [2]map[string]string{a, s}
			cache[top] = rs
		}
		ren := rs[0]
		if len(ren) == 0 {
			continue
		}
		ct := ss.Contracts[k]
		// pre- and post-conditions of a declared function see its signature only (and `result`); those of a closure also
		// see the variables it captures
		outer := rs[1]
		if k != top {
			outer = map[string]string{}
			for a, c := range ren {
				if a != "result" {
					outer[a] = c
				}
			}
		}
		if ct.rename(ren, outer, ss) {
			var ps []string
			for a, c := range ren {
				ps = append(ps, a+"→"+c)
			}
			sort.Strings(ps)
			notes = append(notes, fmt.Sprintf("contract of %s read with renamed variables: %s", k, strings.Join(ps, ", ")))
		}
	}
	return notes
}

func (ct *Contract) rename(inner, outer map[string]string, ss *SpecSet) bool {
	ren := outer
	changed := false
	var rn func(e SExpr, bound map[string]bool) SExpr
	name := func(s string, bound map[string]bool) string {
		base, suf := s, ""
		if strings.HasSuffix(s, "@pre") {
			base, suf = strings.TrimSuffix(s, "@pre"), "@pre"
		}
		if bound[base] {
			return s
		}
		if n, ok := ren[base]; ok {
			changed = true
			return n + suf
		}
		return s
	}
	list := func(es []SExpr, bound map[string]bool) []SExpr {
		out := make([]SExpr, len(es))
		for i, x := range es {
			out[i] = rn(x, bound)
		}
		return out
	}
	rn = func(e SExpr, bound map[string]bool) SExpr {
		switch n := e.(type) {
		case *SIdent:
			return &SIdent{Name: name(n.Name, bound)}
		case *SUnary:
			return &SUnary{Op: n.Op, X: rn(n.X, bound)}
		case *SBinary:
			return &SBinary{Op: n.Op, X: rn(n.X, bound), Y: rn(n.Y, bound)}
		case *SCall:
			f := n.Fun
			if _, isSpec := ss.Funcs[f]; !isSpec {
				if _, ok := ren[f]; ok && !bound[f] {
					f = name(f, bound)
				}
			}
			return &SCall{Fun: f, Args: list(n.Args, bound)}
		case *SIndex:
			return &SIndex{X: rn(n.X, bound), I: rn(n.I, bound)}
		case *SSlice:
			out := &SSlice{X: rn(n.X, bound)}
			if n.Lo != nil {
				out.Lo = rn(n.Lo, bound)
			}
			if n.Hi != nil {
				out.Hi = rn(n.Hi, bound)
			}
			return out
		case *SField:
			return &SField{X: rn(n.X, bound), Name: n.Name}
		case *SQuant:
			b2 := map[string]bool{}
			for k := range bound {
				b2[k] = true
			}
			for _, v := range n.Vars {
				b2[v.Name] = true
			}
			out := &SQuant{Forall: n.Forall, Vars: n.Vars, Body: rn(n.Body, b2)}
			for _, t := range n.Trig {
				out.Trig = append(out.Trig, list(t, b2))
			}
			return out
		case *SCond:
			return &SCond{C: rn(n.C, bound), A: rn(n.A, bound), B: rn(n.B, bound)}
		case *STypeAssert:
			return &STypeAssert{X: rn(n.X, bound), Ty: n.Ty, Test: n.Test}
		}
		return e
	}
	cl := func(cs []Clause) {
		for i := range cs {
			if cs[i].E != nil {
				cs[i].E = rn(cs[i].E, map[string]bool{})
			}
		}
	}
	cl(ct.Requires)
	cl(ct.Ensures)
	cl(ct.Modifies)
	if ct.Decreases != nil && ct.Decreases.E != nil {
		ct.Decreases.E = rn(ct.Decreases.E, map[string]bool{})
	}
	ren = inner
	cl(ct.AtReturn)
	for _, l := range ct.Loops {
		cl(l.Invariants)
		cl(l.Asserts)
		if l.Decreases != nil && l.Decreases.E != nil {
			l.Decreases.E = rn(l.Decreases.E, map[string]bool{})
		}
	}
	for _, m := range []map[string][]Clause{ct.After, ct.Before, ct.CoverBefore} {
		for _, cs := range m {
			cl(cs)
		}
	}
	for _, cs := range ct.Asserts {
		cl(cs)
	}
	return changed
}
