package main

import (
	"fmt"
	"os"
	"go/token"
	"go/types"
	"sort"
	"strings"

	"golang.org/x/tools/go/ssa"
)

func (fr *frame) analyzeLoops() {
	fr.backedge = map[[2]int]bool{}
	fr.loopHead = map[*ssa.BasicBlock]bool{}
	fr.loopOrd = map[*ssa.BasicBlock]int{}
	for _, b := range fr.fn.Blocks {
		for _, s := range b.Succs {
			if s.Dominates(b) {
				fr.backedge[[2]int{b.Index, s.Index}] = true
				fr.loopHead[s] = true
			}
		}
	}
	// ordinals: headers sorted by source position of the loop (first positioned instruction in header or its body)
	var heads []*ssa.BasicBlock
	for h := range fr.loopHead {
		heads = append(heads, h)
	}
	posOf := func(h *ssa.BasicBlock) token.Pos {
		best := token.NoPos
		body := fr.loopBlocks(h)
		for b := range body {
			for _, in := range b.Instrs {
				if p := in.Pos(); p.IsValid() && (best == token.NoPos || p < best) {
					best = p
				}
			}
		}
		return best
	}
	sort.Slice(heads, func(i, j int) bool {
		pi, pj := posOf(heads[i]), posOf(heads[j])
		if pi != pj {
			return pi < pj
		}
		return heads[i].Index < heads[j].Index
	})
	for i, h := range heads {
		fr.loopOrd[h] = i + 1
	}
}

func (fr *frame) order() []*ssa.BasicBlock {
	indeg := map[*ssa.BasicBlock]int{}
	for _, b := range fr.fn.Blocks {
		for _, s := range b.Succs {
			if !fr.backedge[[2]int{b.Index, s.Index}] {
				indeg[s]++
			}
		}
	}
	var out, q []*ssa.BasicBlock
	q = append(q, fr.fn.Blocks[0])
	for len(q) > 0 {
		b := q[0]
		q = q[1:]
		out = append(out, b)
		for _, s := range b.Succs {
			if fr.backedge[[2]int{b.Index, s.Index}] {
				continue
			}
			indeg[s]--
			if indeg[s] == 0 {
				q = append(q, s)
			}
		}
	}
	return out
}

func (fr *frame) loopBlocks(h *ssa.BasicBlock) map[*ssa.BasicBlock]bool {
	body := map[*ssa.BasicBlock]bool{h: true}
	var stack []*ssa.BasicBlock
	for _, p := range h.Preds {
		if fr.backedge[[2]int{p.Index, h.Index}] {
			stack = append(stack, p)
		}
	}
	for len(stack) > 0 {
		b := stack[len(stack)-1]
		stack = stack[:len(stack)-1]
		if body[b] {
			continue
		}
		body[b] = true
		for _, p := range b.Preds {
			stack = append(stack, p)
		}
	}
	return body
}

func (e *enc) edgeCond(p, b *ssa.BasicBlock) Term {
	fr := e.fr
	at := fr.atEnd[p]
	last := p.Instrs[len(p.Instrs)-1]
	if iff, ok := last.(*ssa.If); ok {
		c := e.value(iff.Cond)
		if p.Succs[0] == b && p.Succs[1] == b {
			return at
		}
		if p.Succs[0] == b {
			return mkAnd(at, c)
		}
		return mkAnd(at, "(not "+c+")")
	}
	return at
}

func mkAnd(a, b Term) Term {
	if a == "true" {
		return b
	}
	if b == "true" {
		return a
	}
	return "(and " + a + " " + b + ")"
}

func mkOr(ts []Term) Term {
	if len(ts) == 0 {
		return "false"
	}
	if len(ts) == 1 {
		return ts[0]
	}
	return "(or " + strings.Join(ts, " ") + ")"
}

// mergeMem merges memory snapshots of predecessor edges.
func (e *enc) mergeMem(mems []map[string]Term, conds []Term) map[string]Term {
	merged := map[string]Term{}
	keys := map[string]bool{}
	for _, m := range mems {
		for k := range m {
			keys[k] = true
		}
	}
	for _, k := range sortedKeys(keys) {
		get := func(i int) Term {
			if v, ok := mems[i][k]; ok {
				return v
			}
			if v, ok := e.init[k]; ok {
				return v
			}
			return e.mem[k]
		}
		t := get(0)
		same := true
		for i := 1; i < len(mems); i++ {
			if get(i) != t {
				same = false
			}
		}
		if !same {
			t = ""
			for i := len(mems) - 1; i >= 0; i-- {
				pv := get(i)
				if t == "" {
					t = pv
				} else {
					t = fmt.Sprintf("(ite %s %s %s)", conds[i], pv, t)
				}
			}
			t = e.define("mm_"+k, e.memSort[k], t)
		}
		merged[k] = t
	}
	return merged
}

// run executes the frame's function body symbolically. atEntry is the path condition at entry.
func (e *enc) run(fr *frame, atEntry Term) {
	saved := e.fr
	e.fr = fr
	defer func() { e.fr = saved }()
	fr.analyzeLoops()
	if fr.contract != nil {
		var ks []int
		for k := range fr.contract.Loops {
			ks = append(ks, k)
		}
		sort.Ints(ks)
		for _, k := range ks {
			if k < 1 || k > len(fr.loopOrd) {
				// clauses of a loop the function does not have are never silently dropped
				e.contractError(fr, fmt.Sprintf("loop %d: the function has %d loop(s)", k, len(fr.loopOrd)))
			}
		}
	}
	fr.entryMem = copyMem(e.mem)
	blocks := fr.order()
	for _, b := range blocks {
		if b.Index == 0 {
			fr.at[b] = atEntry
		} else {
			var conds []Term
			var mems []map[string]Term
			var preds []*ssa.BasicBlock
			for _, p := range b.Preds {
				if fr.backedge[[2]int{p.Index, b.Index}] {
					continue
				}
				if _, ok := fr.atEnd[p]; !ok {
					continue
				}
				conds = append(conds, e.edgeCond(p, b))
				mems = append(mems, fr.memOut[p])
				preds = append(preds, p)
			}
			// what a cell is known to point to is part of the path state: kept only if all incoming paths agree
			e.ptrIn = nil
			for i, p := range preds {
				po := fr.ptrOut[p]
				if i == 0 {
					e.ptrIn = map[string]*Loc{}
					for k, v := range po {
						e.ptrIn[k] = v
					}
					continue
				}
				for k, v := range e.ptrIn {
					if po[k] != v {
						delete(e.ptrIn, k)
					}
				}
			}
			if len(conds) == 0 {
				fr.at[b] = "false"
				e.mem = copyMem(e.mem)
			} else {
				fr.at[b] = e.define(fmt.Sprintf("at_%s_b%d", fr.fn.Name(), b.Index), "Bool", mkOr(conds))
				e.mem = e.mergeMem(mems, conds)
			}
		}
		fr.cur = fr.at[b]
		fr.curNames = map[string]ssa.Value{}
		if d := b.Idom(); d != nil {
			for k, v := range fr.names[d] {
				fr.curNames[k] = v
			}
		}
		for _, in := range b.Instrs {
			if phi, ok := in.(*ssa.Phi); ok && phi.Comment != "" {
				fr.curNames[phi.Comment] = phi
				delete(fr.curObj, phi.Comment)
			}
		}
		if fr.loopHead[b] {
			e.loopHeader(fr, b)
		}
		for _, in := range b.Instrs {
			if c, ok := in.(*ssa.Call); ok && fr.contract != nil && len(fr.contract.CoverBefore) > 0 {
				e.aroundCall(fr, c, fr.contract.CoverBefore, "cover-before@")
			}
			if c, ok := in.(*ssa.Call); ok && fr.contract != nil && len(fr.contract.Before) > 0 {
				e.aroundCall(fr, c, fr.contract.Before, "assert-before@")
			}
			e.instr(b, in)
			if d, ok := in.(*ssa.DebugRef); ok {
				if obj, ok := d.Object().(*types.Var); ok && obj != nil && !isPkgLevel(obj) {
					fr.curNames[obj.Name()] = d.X
					if fr.curObj == nil {
						fr.curObj = map[string]types.Object{}
					}
					fr.curObj[obj.Name()] = obj
					// a variable that lives in a cell (address taken / captured) is always read from its cell
					if a := fr.allocFor(obj); a != nil {
						fr.curNames[obj.Name()] = a
					}
				}
			}
			if c, ok := in.(*ssa.Call); ok && fr.contract != nil && len(fr.contract.After) > 0 {
				e.afterCall(fr, c)
			}
		}
		if ls := fr.loops[b]; ls != nil && ls.countIdx != nil && ls.countGuard != nil {
			// i <= n while n cannot change in the loop (entry: 0 <= n or the guard fails at once; back edge: i < n held)
			idx, n := ls.phiPre[ls.countIdx], e.value(ls.countGuard.Y)
			e.assumeAt(fmt.Sprintf("(=> (>= %s 0) (<= %s %s))", n, idx, n))
			e.assumeAt(fmt.Sprintf("(=> (and (>= %s 0) (>= %s %s)) (= %s %s))", n, idx, n, idx, n))
		}
		fr.names[b] = fr.curNames
		fr.atEnd[b] = fr.cur
		fr.memOut[b] = copyMem(e.mem)
		if fr.ptrOut == nil {
			fr.ptrOut = map[*ssa.BasicBlock]map[string]*Loc{}
		}
		po := map[string]*Loc{}
		for k, v := range e.ptrIn {
			po[k] = v
		}
		fr.ptrOut[b] = po
		// back edges out of this block: invariant preservation
		for _, s := range b.Succs {
			if fr.backedge[[2]int{b.Index, s.Index}] {
				e.loopLatch(fr, b, s)
			}
		}
	}
}

// loop write set: memory keys written inside the loop (conservative)
func (e *enc) loopWrites(fr *frame, body map[*ssa.BasicBlock]bool) (keys map[string]bool, allHeap bool) {
	keys = map[string]bool{}
	var blocks []*ssa.BasicBlock
	for b := range body {
		blocks = append(blocks, b)
	}
	sort.Slice(blocks, func(i, j int) bool { return blocks[i].Index < blocks[j].Index })
	for _, bb := range blocks {
		for _, in := range bb.Instrs {
			switch x := in.(type) {
			case *ssa.Store:
				e.addWriteBase(fr, x.Addr, keys, &allHeap)
			case *ssa.MapUpdate:
				e.addWriteBase(fr, x.Map, keys, &allHeap)
			case *ssa.Call:
				e.callWrites(fr, x.Common(), keys, &allHeap)
			case *ssa.Defer:
				e.callWrites(fr, x.Common(), keys, &allHeap)
			}
		}
	}
	return
}

// loopStores: components directly assigned (Store) in the loop, as opposed to updated through a map
func (e *enc) loopStores(fr *frame, body map[*ssa.BasicBlock]bool) map[string]bool {
	keys := map[string]bool{}
	for bb := range body {
		for _, in := range bb.Instrs {
			switch x := in.(type) {
			case *ssa.Store:
				var dummy bool
				e.addWriteBase(fr, x.Addr, keys, &dummy)
			case *ssa.Call:
				var dummy bool
				e.storesOnly = true
				e.callWrites(fr, x.Common(), keys, &dummy)
				e.storesOnly = false
			}
		}
	}
	return keys
}

// addWriteBase: which component does a store through v hit?
func (e *enc) addWriteBase(fr *frame, v ssa.Value, keys map[string]bool, allHeap *bool) {
	if e.awbDepth == 0 {
		e.awbSeen = map[ssa.Value]bool{}
	}
	if e.awbSeen[v] {
		return
	}
	e.awbSeen[v] = true
	e.awbDepth++
	defer func() { e.awbDepth-- }()
	switch x := v.(type) {
	case *ssa.Alloc:
		if l, ok := fr.loc[x]; ok {
			keys[l.base] = true
		} else {
			keys[e.allocKey(fr, x)] = true
		}
		return
	case *ssa.Global:
		keys[e.ensureGlobal(x)] = true
		return
	case *ssa.FieldAddr:
		e.addWriteBase(fr, x.X, keys, allHeap)
		return
	case *ssa.IndexAddr:
		if _, ok := x.X.Type().Underlying().(*types.Slice); ok {
			if p, ok := fr.prov[x.X]; ok && strings.HasPrefix(p.base, "V:") {
				keys[p.base] = true
				return
			}
			// element store through a slice value: goes to its provenance (a loaded location) if any
			if u, ok := x.X.(*ssa.UnOp); ok && u.Op == token.MUL {
				e.addWriteBase(fr, u.X, keys, allHeap)
				return
			}
			if f, ok := x.X.(*ssa.Field); ok {
				_ = f
			}
			*allHeap = true
			return
		}
		e.addWriteBase(fr, x.X, keys, allHeap)
		return
	case *ssa.UnOp:
		if x.Op == token.MUL {
			// map loaded from a location, or pointer loaded from memory
			if _, ok := x.Type().Underlying().(*types.Map); ok {
				e.addWriteBase(fr, x.X, keys, allHeap)
				return
			}
		}
	case *ssa.Parameter, *ssa.FreeVar:
		if l, ok := fr.loc[v]; ok {
			keys[l.base] = true
			return
		}
	case *ssa.Phi:
		for _, ed := range x.Edges {
			if ed != v {
				e.addWriteBase(fr, ed, keys, allHeap)
			}
		}
		return
	case *ssa.MakeMap:
		keys[fmt.Sprintf("M:%s:%d:%s", clean(fr.fn.Name()), fr.depth, x.Name())] = true
		return
	case *ssa.Lookup:
		// a map held as a value of another map: the write goes back into the outer map
		if _, ok := x.Type().Underlying().(*types.Map); ok {
			e.addWriteBase(fr, x.X, keys, allHeap)
			return
		}
		if _, ok := x.Type().(*types.Tuple); ok {
			e.addWriteBase(fr, x.X, keys, allHeap)
			return
		}
	case *ssa.Extract:
		if lk, ok := x.Tuple.(*ssa.Lookup); ok {
			e.addWriteBase(fr, lk, keys, allHeap)
			return
		}
	}
	if l, ok := fr.prov[v]; ok {
		keys[l.base] = true
		return
	}
	if l, ok := fr.loc[v]; ok {
		keys[l.base] = true
		return
	}
	if pt, ok := v.Type().Underlying().(*types.Pointer); ok && !isNodeType(pt) {
		keys[e.heapKey(pt.Elem())] = true
		return
	}
	if _, ok := v.Type().Underlying().(*types.Map); ok {
		// map value of unknown provenance: maps are values in this model; a MapUpdate without provenance is reported when executed
		return
	}
}

func (e *enc) allocKey(fr *frame, a *ssa.Alloc) string {
	return fmt.Sprintf("A:%s:%d:%s", clean(fr.fn.Name()), fr.depth, a.Name())
}

// callWrites: components a call may write
func (e *enc) callWrites(fr *frame, c *ssa.CallCommon, keys map[string]bool, allHeap *bool) {
	// a callee under contract writes exactly what its (verified) modifies clauses say
	if cal := c.StaticCallee(); cal != nil {
		if n := cal.String(); n == "io/ioutil.WriteFile" || n == "os.WriteFile" {
			keys[e.fsMem()] = true
		}
	}
	if cal := c.StaticCallee(); cal != nil && inRepo(cal) {
		if ct, ok := e.ss.Contracts[cal.Pkg.Pkg.Path()+"."+funcKey(cal)]; ok && ct.ModFS {
			keys[e.fsMem()] = true
		}
		if ct, ok := e.ss.Contracts[cal.Pkg.Pkg.Path()+"."+funcKey(cal)]; ok && !ct.ModAll {
			for _, m := range ct.Modifies {
				switch n := m.E.(type) {
				case *SIdent:
					hit := false
					for i, p := range cal.Params {
						if p.Name() == n.Name && i < len(c.Args) {
							e.addWriteBase(fr, c.Args[i], keys, allHeap)
							if u, ok := c.Args[i].(*ssa.UnOp); ok {
								e.addWriteBase(fr, u.X, keys, allHeap)
							}
							hit = true
						}
					}
					if !hit {
						if g, ok := cal.Pkg.Members[n.Name].(*ssa.Global); ok {
							keys[e.ensureGlobal(g)] = true
						}
					}
				case *SUnary:
					if id, ok := n.X.(*SIdent); ok && n.Op == "*" {
						for i, p := range cal.Params {
							if p.Name() == id.Name && i < len(c.Args) {
								e.addWriteBase(fr, c.Args[i], keys, allHeap)
							}
						}
					}
				case *SField:
					if id, ok := n.X.(*SIdent); ok {
						for i, p := range cal.Params {
							if p.Name() == id.Name && i < len(c.Args) {
								if u, ok := c.Args[i].(*ssa.UnOp); ok {
									e.addWriteBase(fr, u.X, keys, allHeap)
								}
							}
						}
						for _, imp := range cal.Pkg.Pkg.Imports() {
							if imp.Name() == id.Name {
								if sp := e.w.Prog.Package(imp); sp != nil {
									if g, ok := sp.Members[n.Name].(*ssa.Global); ok {
										keys[e.ensureGlobal(g)] = true
									}
								}
							}
						}
					}
				}
			}
			return
		}
	}
	// pointer arguments with known locations may be written by the callee
	for _, a := range c.Args {
		if mi, ok := a.(*ssa.MakeInterface); ok {
			a = mi.X // a pointer boxed into an interface (json.Unmarshal(data, &v))
		}
		if _, ok := a.Type().Underlying().(*types.Pointer); ok && !isNodeType(a.Type()) {
			e.addWriteBase(fr, a, keys, allHeap)
		}
		// a struct holding maps, passed by value, shares those maps with the place it was loaded from
		if st, ok := a.Type().Underlying().(*types.Struct); ok && !isNodeType(a.Type()) {
			hasMap := false
			for i := 0; i < st.NumFields(); i++ {
				if _, isMap := st.Field(i).Type().Underlying().(*types.Map); isMap {
					hasMap = true
				}
			}
			if u, ok := a.(*ssa.UnOp); ok && hasMap {
				e.addWriteBase(fr, u.X, keys, allHeap)
			}
		}
		// maps are references: a callee may update the caller's map
		if _, ok := a.Type().Underlying().(*types.Map); ok {
			e.addWriteBase(fr, a, keys, allHeap)
			if u, ok := a.(*ssa.UnOp); ok {
				e.addWriteBase(fr, u.X, keys, allHeap)
			}
		}
	}
	if c.IsInvoke() {
		return
	}
	callee := c.StaticCallee()
	if callee == nil {
		if _, ok := c.Value.(*ssa.Builtin); ok {
			return
		}
		// dynamic call through a function value: closures defined in /repo could write package state
		if mc, ok := c.Value.(*ssa.MakeClosure); ok {
			callee = mc.Fn.(*ssa.Function)
		} else {
			return
		}
	}
	fa := e.w.frameOf(callee)
	if fa.fs {
		keys[e.fsMem()] = true
	}
	if e.storesOnly {
		for g := range fa.assigns {
			keys[e.ensureGlobal(g)] = true
		}
	} else {
		for g := range fa.writes {
			keys[e.ensureGlobal(g)] = true
		}
	}
	if fa.heap {
		*allHeap = true
	}
	// closures: captured cells written by the closure body
	for _, a := range c.Args {
		if mc, ok := a.(*ssa.MakeClosure); ok {
			for _, b := range mc.Bindings {
				e.addWriteBase(fr, b, keys, allHeap)
			}
			ffa := e.w.frameOf(mc.Fn.(*ssa.Function))
			for g := range ffa.writes {
				keys[e.ensureGlobal(g)] = true
			}
		}
	}
}

func (e *enc) loopHeader(fr *frame, h *ssa.BasicBlock) {
	ord := fr.loopOrd[h]
	ls := &loopState{ord: ord, head: h, phiPre: map[*ssa.Phi]Term{}}
	if fr.contract != nil {
		ls.spec = fr.contract.Loops[ord]
	}
	fr.loops[h] = ls
	body := fr.loopBlocks(h)
	// 1. invariant on entry (state = merged entry edges, phis take entry-edge values)
	entryVals := map[*ssa.Phi]Term{}
	for _, in := range h.Instrs {
		phi, ok := in.(*ssa.Phi)
		if !ok {
			break
		}
		var t Term
		for i := len(h.Preds) - 1; i >= 0; i-- {
			p := h.Preds[i]
			if fr.backedge[[2]int{p.Index, h.Index}] {
				continue
			}
			if _, ok := fr.atEnd[p]; !ok {
				continue
			}
			pv := e.value(phi.Edges[i])
			if t == "" {
				t = pv
			} else {
				t = fmt.Sprintf("(ite %s %s %s)", e.edgeCond(p, h), pv, t)
			}
		}
		entryVals[phi] = t
		if phi.Comment == "rangeindex" {
			ls.rangeIdx = phi
		}
	}
	if ls.rangeIdx == nil {
		ls.countIdx, ls.countGuard = countedLoop(fr, h, body)
	}
	ls.entryPhi = entryVals
	ls.memEntry = copyMem(e.mem)
	// map range: the ghost set of visited keys (empty on entry)
	for _, in := range h.Instrs {
		if nx, ok := in.(*ssa.Next); ok && !nx.IsString {
			if st := fr.rangeOf[nx.Iter]; st != nil && st.mt != nil {
				ls.rng = st
				ls.visCur = fmt.Sprintf("((as const (Array %s Bool)) false)", e.so.of(st.mt.Key()))
			}
		}
	}
	if ls.spec != nil {
		for i, inv := range ls.spec.Invariants {
			env := e.loopEnv(fr, h, entryVals, e.mem)
			g, err := e.specBool(env, inv.E)
			if err != nil {
				e.contractError(fr, fmt.Sprintf("loop %d invariant %d: %v", ord, i+1, err))
				continue
			}
			e.oblige(fmt.Sprintf("inv-init.L%d.%d", ord, i+1), g, firstPos(h), inv.Text)
		}
	}
	if ls.rng != nil {
		ks := e.so.of(ls.rng.mt.Key())
		ls.rng.visited = e.fresh("visited", fmt.Sprintf("(Array %s Bool)", ks))
		ls.visCur = ls.rng.visited
	}
	// slices defined before the loop whose elements are assigned inside it: their cell exists from here on
	for bb := range body {
		for _, in := range bb.Instrs {
			st, ok := in.(*ssa.Store)
			if !ok {
				continue
			}
			ia, ok := st.Addr.(*ssa.IndexAddr)
			if !ok {
				continue
			}
			if _, isSlice := ia.X.Type().Underlying().(*types.Slice); !isSlice {
				continue
			}
			if _, has := fr.prov[ia.X]; has {
				continue
			}
			if sv, defined := fr.val[ia.X]; defined {
				if ib, ok := ia.X.(ssa.Instruction); !ok || !body[ib.Block()] {
					e.sliceCell(fr, ia.X, sv, e.so.of(ia.X.Type()))
				}
			}
		}
	}
	// 2. havoc
	keys, allHeap := e.loopWrites(fr, body)
	stored := e.loopStores(fr, body)
	if os.Getenv("VERIF_DEBUG_LOOPS") != "" {
		fmt.Fprintf(os.Stderr, "loop %d of %s writes %v allHeap=%v\n", ord, fnFull(fr.fn), sortedKeys(keys), allHeap)
	}
	for pk := range e.ptrIn {
		base := pk
		if i := strings.Index(pk, "|"); i >= 0 {
			base = pk[:i]
		}
		if keys[base] || (allHeap && strings.HasPrefix(base, "H:")) {
			delete(e.ptrIn, pk) // the cell is reassigned somewhere in the loop
		}
	}
	for _, k := range sortedKeys(e.mem) {
		if strings.HasPrefix(k, "AL:") && loopAllocates(body) {
			old := e.mem[k]
			e.mem[k] = e.fresh("al_h", "(Array Int Bool)")
			e.assume(fmt.Sprintf("(forall ((x Int)) (! (=> (select %s x) (select %s x)) :pattern ((select %s x))))", old, e.mem[k], old))
			continue
		}
		if keys[k] || (allHeap && strings.HasPrefix(k, "H:")) {
			old := e.mem[k]
			e.havocKey(k)
			// automatic heap frame: if every write of the loop to this heap goes through an object allocated by this
			// function activation, the objects that were allocated when the function was entered are unchanged
			if strings.HasPrefix(k, "H:") && !allHeap && loopWritesOnlyFresh(fr, body, k, e) {
				ak := "AL:" + strings.TrimPrefix(k, "H:")
				if al0, ok := fr.entryMem[ak]; ok {
					e.assume(fmt.Sprintf("(forall ((r Int)) (! (=> (select %s r) (= (select %s r) (select %s r))) :pattern ((select %s r))))", al0, e.mem[k], old, e.mem[k]))
				} else if al0, ok := e.init[ak]; ok {
					e.assume(fmt.Sprintf("(forall ((r Int)) (! (=> (select %s r) (= (select %s r) (select %s r))) :pattern ((select %s r))))", al0, e.mem[k], old, e.mem[k]))
				}
			}
			// a map location that is only updated (never reassigned) in the loop keeps its nil-ness
			if ms := e.memSort[k]; strings.HasPrefix(ms, "Map_") && !stored[k] {
				e.assume(fmt.Sprintf("(= (nil_%s %s) (nil_%s %s))", ms, e.mem[k], ms, old))
			}
		}
	}
	for _, in := range h.Instrs {
		phi, ok := in.(*ssa.Phi)
		if !ok {
			break
		}
		t := e.fresh("phi_"+phi.Comment+"_"+phi.Name(), e.so.of(phi.Type()))
		ls.phiPre[phi] = t
		fr.val[phi] = t
		if _, isMap := phi.Type().Underlying().(*types.Map); isMap {
			// a map variable re-assigned in the loop (m = f(m)): taken to stay the same map (checked at every back edge)
			for i, p := range h.Preds {
				if fr.backedge[[2]int{p.Index, h.Index}] {
					continue
				}
				if pv, ok := fr.prov[phi.Edges[i]]; ok {
					fr.prov[phi] = pv
					if ls.mapPhis == nil {
						ls.mapPhis = map[*ssa.Phi]*Loc{}
					}
					ls.mapPhis[phi] = pv
				}
			}
		}
		e.assumeWF(t, phi.Type(), 2)
		// a phi over pointers into cells keeps its location only if all edges agree
		var l0 *Loc
		agree := true
		for _, ed := range phi.Edges {
			if l, ok := fr.loc[ed]; ok {
				if l0 == nil {
					l0 = l
				} else if l0 != l {
					agree = false
				}
			} else if ed != ssa.Value(phi) {
				agree = false
			}
		}
		if agree && l0 != nil {
			fr.loc[phi] = l0
		}
	}
	ls.memHead = copyMem(e.mem)
	// implicit range invariants
	if ls.rangeIdx != nil {
		idx := ls.phiPre[ls.rangeIdx]
		e.assumeAt(fmt.Sprintf("(>= %s (- 1))", idx))
		if bound := rangeBound(h, ls.rangeIdx); bound != nil {
			e.assumeAt(fmt.Sprintf("(< %s %s)", idx, e.value(bound)))
			// at exit the number of completed iterations equals the length: stated as an equality atom so that
			// congruence closure can use it under spec functions (e.g. Cnt(s, #i) becomes Cnt(s, len(s)))
			e.assume(fmt.Sprintf("(=> (>= (+ %s 1) %s) (= (+ %s 1) %s))", idx, e.value(bound), idx, e.value(bound)))
		}
	}
	// counted loop `for i := 0; i < n; i++` (i changed nowhere else, n fixed): 0 <= i <= n by construction
	if ls.countIdx != nil {
		idx := ls.phiPre[ls.countIdx]
		e.assumeAt(fmt.Sprintf("(>= %s 0)", idx))
		if ls.countGuard != nil && !e.stableBound(fr, ls.countGuard.Y, h, body, keys, allHeap) {
			ls.countGuard = nil
		}
	}
	// 3. assume invariants on the havoced state
	if ls.spec != nil {
		for i, inv := range ls.spec.Invariants {
			env := e.loopEnv(fr, h, ls.phiPre, e.mem)
			g, err := e.specBool(env, inv.E)
			if err != nil {
				e.contractError(fr, fmt.Sprintf("loop %d invariant %d: %v", ord, i+1, err))
				continue
			}
			e.assumeAt(g)
		}
		if ls.spec.Decreases != nil {
			env := e.loopEnv(fr, h, ls.phiPre, e.mem)
			m, _, err := e.specTerm(env, ls.spec.Decreases.E)
			if err == nil {
				ls.decPre = e.define("dec_pre", "Int", m)
			}
		}
	} else if ls.rangeIdx == nil && !isMapRangeLoop(h) {
		e.note("loop %d of %s has no invariant (state written in it is havoced)", ord, fnFull(fr.fn))
	}
}

func isMapRangeLoop(h *ssa.BasicBlock) bool {
	for _, in := range h.Instrs {
		if _, ok := in.(*ssa.Next); ok {
			return true
		}
	}
	return false
}

func firstPos(b *ssa.BasicBlock) token.Pos {
	for _, in := range b.Instrs {
		if in.Pos().IsValid() {
			return in.Pos()
		}
	}
	for _, s := range b.Succs {
		for _, in := range s.Instrs {
			if in.Pos().IsValid() {
				return in.Pos()
			}
		}
	}
	return token.NoPos
}

// countedLoop recognises `for i := 0; cond(i < n); i++`: a header phi that is 0 on entry and itself + 1 on every back
// edge, compared in the header with `i < n`. n is reported when it cannot change during the loop: a constant, a value
// defined outside the loop, or len of such a value (slices are values: the length of an SSA slice value is fixed).
func countedLoop(fr *frame, h *ssa.BasicBlock, body map[*ssa.BasicBlock]bool) (*ssa.Phi, *ssa.BinOp) {
	for _, in := range h.Instrs {
		phi, ok := in.(*ssa.Phi)
		if !ok {
			break
		}
		if b, isBasic := phi.Type().Underlying().(*types.Basic); !isBasic || b.Info()&types.IsInteger == 0 {
			continue
		}
		good := true
		for i, p := range h.Preds {
			ed := phi.Edges[i]
			if fr.backedge[[2]int{p.Index, h.Index}] {
				inc, ok := ed.(*ssa.BinOp)
				if !ok || inc.Op != token.ADD || inc.X != ssa.Value(phi) {
					good = false
					break
				}
				c, ok := inc.Y.(*ssa.Const)
				if !ok || c.Value == nil || c.Value.ExactString() != "1" {
					good = false
				}
			} else {
				c, ok := ed.(*ssa.Const)
				if !ok || c.Value == nil || c.Value.ExactString() != "0" {
					good = false
				}
			}
		}
		if !good {
			continue
		}
		// the guard: the header ends in `if i < n`, leaving the loop when it is false
		ifi, ok := h.Instrs[len(h.Instrs)-1].(*ssa.If)
		if !ok {
			return phi, nil
		}
		cmp, ok := ifi.Cond.(*ssa.BinOp)
		if !ok || cmp.Op != token.LSS || cmp.X != ssa.Value(phi) || cmp.Block() != h || !body[h.Succs[0]] || body[h.Succs[1]] {
			return phi, nil
		}
		return phi, cmp
	}
	return nil, nil
}

// stableBound: the bound of a counted loop is re-evaluated in the header at every iteration; it denotes the same number
// throughout when it is built from constants, values defined outside the loop, len / field selection of such values, and
// loads from non-escaping local cells or package variables that the loop (callees included) does not write.
func (e *enc) stableBound(fr *frame, v ssa.Value, h *ssa.BasicBlock, body map[*ssa.BasicBlock]bool, keys map[string]bool, allHeap bool) bool {
	var addr func(a ssa.Value) bool
	var val func(v ssa.Value, d int) bool
	addr = func(a ssa.Value) bool {
		// a field of a read-only external object (go/ast node) reached through a stable pointer never changes
		if fa, ok := a.(*ssa.FieldAddr); ok {
			if pt, ok := fa.X.Type().Underlying().(*types.Pointer); ok && e.readOnlyExt(pt.Elem()) {
				return val(fa.X, 1)
			}
		}
		switch x := a.(type) {
		case *ssa.Alloc:
			if allocEscapes(x) {
				return false
			}
			if l, ok := fr.loc[x]; ok {
				return !keys[l.base]
			}
			return false
		case *ssa.Global:
			return !keys[e.ensureGlobal(x)]
		case *ssa.FieldAddr:
			if _, isPtrToStruct := x.X.(*ssa.Alloc); isPtrToStruct {
				return addr(x.X)
			}
			if fa, ok := x.X.(*ssa.FieldAddr); ok {
				return addr(fa)
			}
			if g, ok := x.X.(*ssa.Global); ok {
				return addr(g)
			}
		}
		return false
	}
	val = func(v ssa.Value, d int) bool {
		if d > 8 {
			return false
		}
		switch v.(type) {
		case *ssa.Const, *ssa.Parameter, *ssa.FreeVar:
			return true
		}
		in, ok := v.(ssa.Instruction)
		if !ok {
			return false
		}
		if !body[in.Block()] {
			return true
		}
		if in.Block() != h {
			return false
		}
		switch x := v.(type) {
		case *ssa.Call:
			if bi, ok := x.Call.Value.(*ssa.Builtin); ok && bi.Name() == "len" && len(x.Call.Args) == 1 {
				switch x.Call.Args[0].Type().Underlying().(type) {
				case *types.Slice, *types.Basic:
					return val(x.Call.Args[0], d+1)
				}
			}
		case *ssa.Field:
			return val(x.X, d+1)
		case *ssa.UnOp:
			if x.Op == token.MUL {
				return addr(x.X)
			}
		}
		return false
	}
	return val(v, 0)
}

// rangeBound finds the length value the rangeindex is compared with in the loop header.
func rangeBound(h *ssa.BasicBlock, phi *ssa.Phi) ssa.Value {
	for _, in := range h.Instrs {
		if b, ok := in.(*ssa.BinOp); ok && b.Op == token.LSS {
			if inc, ok := b.X.(*ssa.BinOp); ok && inc.Op == token.ADD && inc.X == ssa.Value(phi) {
				return b.Y
			}
		}
	}
	return nil
}

func (e *enc) loopLatch(fr *frame, latch, h *ssa.BasicBlock) {
	ls := fr.loops[h]
	if ls != nil {
		for phi, pv := range ls.mapPhis {
			for i, p := range h.Preds {
				if p != latch {
					continue
				}
				bp, ok := fr.prov[phi.Edges[i]]
				if !ok || locKey(bp) != locKey(pv) {
					e.outOfSubset = append(e.outOfSubset, fmt.Sprintf("map variable %s is re-assigned in a loop to a map that is not the same map", phi.Comment))
					save := fr.cur
					fr.cur = "true"
					e.oblige("mapvar", "false", firstPos(h), "the map variable "+phi.Comment+" keeps denoting the same map around the loop")
					fr.cur = save
				}
			}
		}
	}
	if ls == nil || ls.spec == nil {
		return
	}
	// state at the back edge
	saveCur := fr.cur
	fr.cur = e.edgeCond(latch, h)
	vals := map[*ssa.Phi]Term{}
	for _, in := range h.Instrs {
		phi, ok := in.(*ssa.Phi)
		if !ok {
			break
		}
		for i, p := range h.Preds {
			if p == latch {
				vals[phi] = e.value(phi.Edges[i])
			}
		}
	}
	if ls.rng != nil && ls.rng.curKey != "" {
		ls.visCur = fmt.Sprintf("(store %s %s true)", ls.rng.visited, ls.rng.curKey)
		defer func() { ls.visCur = ls.rng.visited }()
	}
	// lemmas at the back edge: proved in order, each assumed for what follows
	for i, as := range ls.spec.Asserts {
		env := e.loopEnv(fr, h, vals, e.mem)
		inner := env.locals
		env.locals = func(name string) (tval, bool) {
			if strings.HasSuffix(name, "@pre") {
				return e.lookupLocalAtHeader(fr, h, ls, strings.TrimSuffix(name, "@pre"))
			}
			return inner(name)
		}
		g, err := e.specBool(env, as.E)
		if err != nil {
			e.contractError(fr, fmt.Sprintf("loop %d assert %d: %v", ls.ord, i+1, err))
			continue
		}
		e.oblige(fmt.Sprintf("loop-assert.L%d.%d", ls.ord, i+1), g, firstPos(h), as.Text)
		e.assumeAt(g)
	}
	for i, inv := range ls.spec.Invariants {
		env := e.loopEnv(fr, h, vals, e.mem)
		g, err := e.specBool(env, inv.E)
		if err != nil {
			e.contractError(fr, fmt.Sprintf("loop %d invariant %d: %v", ls.ord, i+1, err))
			continue
		}
		e.oblige(fmt.Sprintf("inv-pres.L%d.%d", ls.ord, i+1), g, firstPos(h), inv.Text)
	}
	if ls.spec.Decreases != nil && ls.decPre != "" {
		env := e.loopEnv(fr, h, vals, e.mem)
		m, _, err := e.specTerm(env, ls.spec.Decreases.E)
		if err == nil {
			e.oblige(fmt.Sprintf("dec.L%d", ls.ord), fmt.Sprintf("(and (>= %s 0) (< %s %s))", ls.decPre, m, ls.decPre), firstPos(h), ls.spec.Decreases.Text)
		}
	}
	fr.cur = saveCur
}

// afterCall: lemmas attached to "the k-th call of callee" (source order) are proved, then assumed
func (e *enc) afterCall(fr *frame, c *ssa.Call) { e.aroundCall(fr, c, fr.contract.After, "assert@") }

func (e *enc) aroundCall(fr *frame, c *ssa.Call, table map[string][]Clause, cls string) {
	if fr.callOrd == nil {
		fr.callOrd = map[*ssa.Call]string{}
		byName := map[string][]*ssa.Call{}
		for _, b := range fr.fn.Blocks {
			for _, in := range b.Instrs {
				if cc, ok := in.(*ssa.Call); ok {
					n := calleeShort(cc)
					if n != "" {
						byName[n] = append(byName[n], cc)
					}
				}
			}
		}
		for n, cs := range byName {
			sort.SliceStable(cs, func(i, j int) bool { return cs[i].Pos() < cs[j].Pos() })
			for i, cc := range cs {
				fr.callOrd[cc] = fmt.Sprintf("%s#%d", n, i+1)
			}
		}
	}
	key := fr.callOrd[c]
	for i, cl := range table[key] {
		env := e.fnEnv(fr, e.mem)
		// #i inside a range loop: the index of the current iteration (innermost loop around the call)
		var inner *ssa.BasicBlock
		for h := range fr.loopHead {
			if body := fr.loopBlocks(h); body[c.Block()] {
				if inner == nil || fr.loopBlocks(inner)[h] {
					inner = h
				}
			}
		}
		if inner != nil {
			pv := map[*ssa.Phi]Term{}
			for _, in := range inner.Instrs {
				if phi, ok := in.(*ssa.Phi); ok {
					if t, ok := fr.val[phi]; ok {
						pv[phi] = t
					}
				}
			}
			env.hash = e.loopEnv(fr, inner, pv, e.mem).hash
		}
		names := fr.curNames
		env.locals = func(name string) (tval, bool) {
			if v, ok := names[name]; ok {
				if a, isAlloc := v.(*ssa.Alloc); isAlloc && a.Comment == name {
					if l, ok := fr.loc[a]; ok && l.ty != nil {
						return e.mkT(e.read(l), l.ty), true
					}
				}
				if p, ok := fr.prov[v]; ok {
					if _, isMap := v.Type().Underlying().(*types.Map); isMap {
						return e.mkT(e.read(p), v.Type()), true
					}
				}
				return e.mkT(e.value(v), v.Type()), true
			}
			return tval{}, false
		}
		g, err := e.specBool(env, cl.E)
		if err != nil {
			e.contractError(fr, fmt.Sprintf("assert at %s: %v", key, err))
			continue
		}
		if cls == "cover-before@" {
			// reachability: the call can be reached in a state satisfying the clause (sat expected; nothing is assumed)
			save := fr.cur
			fr.cur = fmt.Sprintf("(and %s %s)", fr.cur, g)
			o := e.oblige(fmt.Sprintf("%s%s.%d", cls, key, i+1), "false", c.Pos(), "reachable with: "+cl.Text)
			o.Cover = true
			fr.cur = save
			continue
		}
		e.oblige(fmt.Sprintf("%s%s.%d", cls, key, i+1), g, c.Pos(), cl.Text)
		e.assumeAt(g)
	}
}

func (fr *frame) allocFor(obj *types.Var) *ssa.Alloc {
	if fr.allocByPos == nil {
		fr.allocByPos = map[token.Pos]*ssa.Alloc{}
		for _, b := range fr.fn.Blocks {
			for _, in := range b.Instrs {
				if a, ok := in.(*ssa.Alloc); ok && a.Pos().IsValid() {
					fr.allocByPos[a.Pos()] = a
				}
			}
		}
	}
	if a, ok := fr.allocByPos[obj.Pos()]; ok && a.Comment == obj.Name() {
		return a
	}
	return nil
}

// inRangeBody: is block b inside the loop whose header performs this map range?
func inRangeBody(fr *frame, b *ssa.BasicBlock, st *rangeState) bool {
	for h, ord := range fr.loopOrd {
		if ord == st.ord {
			return fr.loopBlocks(h)[b]
		}
	}
	return false
}

// ---- maps are references: a struct copy shares its map fields with the original

func (e *enc) aliasMapFields(dst, src *Loc, ty types.Type, depth int) {
	if depth > 2 {
		return
	}
	switch u := ty.Underlying().(type) {
	case *types.Map:
		if e.mapAlias == nil {
			e.mapAlias = map[string][]*Loc{}
		}
		e.mapAlias[locKey(dst)] = append(e.mapAlias[locKey(dst)], src)
		e.mapAlias[locKey(src)] = append(e.mapAlias[locKey(src)], dst)
	case *types.Struct:
		s := e.so.of(ty)
		fs := e.so.fields[s]
		for i := 0; i < u.NumFields() && i < len(fs); i++ {
			if fs[i].opaque {
				continue
			}
			switch u.Field(i).Type().Underlying().(type) {
			case *types.Map, *types.Struct:
				st := step{kind: "field", field: s + "." + fs[i].name, sort: s, fi: i}
				d := &Loc{base: dst.base, ref: dst.ref, path: append(append([]step{}, dst.path...), st), sort: fs[i].sort, ty: u.Field(i).Type()}
				sr := &Loc{base: src.base, ref: src.ref, path: append(append([]step{}, src.path...), st), sort: fs[i].sort, ty: u.Field(i).Type()}
				e.aliasMapFields(d, sr, u.Field(i).Type(), depth+1)
			}
		}
	}
}

func (e *enc) mapAliasesOf(l *Loc) []*Loc {
	seen := map[string]bool{locKey(l): true}
	var out []*Loc
	work := []*Loc{l}
	for len(work) > 0 {
		c := work[0]
		work = work[1:]
		for _, o := range e.mapAlias[locKey(c)] {
			if !seen[locKey(o)] {
				seen[locKey(o)] = true
				out = append(out, o)
				work = append(work, o)
			}
		}
	}
	return out
}

// dropMapAliases: the location is assigned a new value: it no longer shares a map with anything
func (e *enc) dropMapAliases(l *Loc) {
	if e.mapAlias == nil {
		return
	}
	k := locKey(l)
	for key := range e.mapAlias {
		if key == k || strings.HasPrefix(key, k+"|") {
			delete(e.mapAlias, key)
		}
	}
	for key, ls := range e.mapAlias {
		var keep []*Loc
		for _, o := range ls {
			ok := locKey(o)
			if ok == k || strings.HasPrefix(ok, k+"|") {
				continue
			}
			keep = append(keep, o)
		}
		e.mapAlias[key] = keep
	}
}

// loopWritesOnlyFresh: every store / map update of the loop body that lands in heap component k is rooted at an
// allocation of this function (a fresh object), and no callee under a heap-writing contract or unknown callee runs in it
func loopWritesOnlyFresh(fr *frame, body map[*ssa.BasicBlock]bool, k string, e *enc) bool {
	rootIsOwnAlloc := func(v ssa.Value) bool {
		for d := 0; d < 12; d++ {
			switch x := v.(type) {
			case *ssa.Alloc:
				return allocEscapes(x)
			case *ssa.FieldAddr:
				v = x.X
			case *ssa.IndexAddr:
				v = x.X
			case *ssa.UnOp:
				v = x.X
			default:
				return false
			}
		}
		return false
	}
	sortOf := func(v ssa.Value) string {
		for d := 0; d < 12; d++ {
			switch x := v.(type) {
			case *ssa.FieldAddr:
				v = x.X
				continue
			case *ssa.IndexAddr:
				v = x.X
				continue
			case *ssa.UnOp:
				v = x.X
				continue
			}
			break
		}
		if pt, ok := v.Type().Underlying().(*types.Pointer); ok {
			return "H:" + e.so.of(pt.Elem())
		}
		return ""
	}
	for b := range body {
		for _, in := range b.Instrs {
			switch x := in.(type) {
			case *ssa.Store:
				if _, isAlloc := rootAlloc(x.Addr); isAlloc {
					if a, _ := rootAlloc(x.Addr); !allocEscapes(a) {
						continue // a local cell, not the heap
					}
				}
				if sortOf(x.Addr) == k && !rootIsOwnAlloc(x.Addr) {
					return false
				}
			case *ssa.MapUpdate:
				if sortOf(x.Map) == k && !rootIsOwnAlloc(x.Map) {
					return false
				}
			case *ssa.Call:
				c := x.Common()
				if b, ok := c.Value.(*ssa.Builtin); ok {
					if b.Name() == "delete" && sortOf(c.Args[0]) == k && !rootIsOwnAlloc(c.Args[0]) {
						return false
					}
					continue
				}
				cal := c.StaticCallee()
				if cal == nil {
					continue // calls through function values are assumed not to write tracked memory
				}
				if !inRepo(cal) {
					continue
				}
				if ct, ok := e.ss.Contracts[cal.Pkg.Pkg.Path()+"."+funcKey(cal)]; ok && !ct.ModAll {
					for _, m := range ct.Modifies {
						if u, ok := m.E.(*SUnary); ok && u.Op == "*" {
							return false
						}
						if _, ok := m.E.(*SField); ok {
							return false
						}
					}
					continue
				}
				if e.w.frameOf(cal).heap {
					return false
				}
			}
		}
	}
	return true
}

// ---- allocation ghost: per heap sort, the set of allocated references (a memory component "AL:<sort>")

func (e *enc) allocSetKey(elem types.Type) string {
	key := "AL:" + e.so.of(elem)
	if _, ok := e.mem[key]; !ok {
		if v, ok := e.init[key]; ok {
			e.mem[key] = v
			return key
		}
	}
	if _, ok := e.mem[key]; !ok {
		e.memSort[key] = "(Array Int Bool)"
		e.mem[key] = e.fresh("al0_"+e.so.of(elem), "(Array Int Bool)")
		e.init[key] = e.mem[key]
		for f := e.fr; f != nil; f = f.parent {
			if f.entryMem != nil {
				if _, ok := f.entryMem[key]; !ok {
					f.entryMem[key] = e.mem[key]
				}
			}
		}
	}
	return key
}

// assumeAllocated: a pointer value obtained from memory / a parameter / a call is nil or allocated
func (e *enc) assumeAllocated(v Term, ty types.Type) {
	pt, ok := ty.Underlying().(*types.Pointer)
	if !ok || isNodeType(ty) || isNodeType(pt.Elem()) {
		return
	}
	if _, isArr := pt.Elem().Underlying().(*types.Array); isArr {
		return
	}
	ak := e.allocSetKey(pt.Elem())
	e.assumeAt(fmt.Sprintf("(or (= %s 0) (select %s %s))", v, e.mem[ak], v))
}

func loopAllocates(body map[*ssa.BasicBlock]bool) bool {
	for b := range body {
		for _, in := range b.Instrs {
			if a, ok := in.(*ssa.Alloc); ok && allocEscapes(a) {
				return true
			}
			if _, ok := in.(*ssa.Call); ok {
				return true // a callee may allocate
			}
		}
	}
	return false
}

// allocEscapes: the address of the cell is stored in memory, put into a map / slice / interface, merged by a phi or returned
func allocEscapes(a *ssa.Alloc) bool {
	refs := a.Referrers()
	if refs == nil {
		return false
	}
	for _, r := range *refs {
		switch x := r.(type) {
		case *ssa.Store:
			if x.Val == ssa.Value(a) {
				return true
			}
		case *ssa.MapUpdate:
			if x.Value == ssa.Value(a) || x.Key == ssa.Value(a) {
				return true
			}
		case *ssa.MakeInterface, *ssa.Return, *ssa.Phi, *ssa.ChangeType:
			return true
		case *ssa.Call:
			if b, ok := x.Call.Value.(*ssa.Builtin); ok && b.Name() == "append" {
				return true
			}
		}
	}
	return false
}

func isPkgLevel(obj *types.Var) bool {
	return obj.Pkg() != nil && obj.Parent() == obj.Pkg().Scope()
}

func calleeShort(c *ssa.Call) string {
	if cal := c.Common().StaticCallee(); cal != nil {
		return cal.Name()
	}
	if c.Common().IsInvoke() {
		return c.Common().Method.Name()
	}
	return ""
}

func (e *enc) contractError(fr *frame, msg string) {
	s := fmt.Sprintf("CONTRACT-ERROR %s: %s", fnFull(fr.fn), msg)
	for _, x := range e.cerrs {
		if x == s {
			return
		}
	}
	e.cerrs = append(e.cerrs, s)
}

// ---------- instructions

func (e *enc) instr(b *ssa.BasicBlock, in ssa.Instruction) {
	fr := e.fr
	switch x := in.(type) {
	case *ssa.DebugRef:
	case *ssa.Alloc:
		elem := x.Type().(*types.Pointer).Elem()
		if allocEscapes(x) && !isNodeType(elem) {
			// the address is stored / returned / boxed: a fresh object on the heap of its type
			if _, isArr := elem.Underlying().(*types.Array); !isArr {
				hk := e.heapKey(elem)
				ak := e.allocSetKey(elem)
				ref := e.fresh("new_"+x.Name(), "Int")
				// a fresh object: not in the set of allocated references, which it then joins
				e.assume(fmt.Sprintf("(and (> %s 0) (not (select %s %s)))", ref, e.mem[ak], ref))
				nal := e.fresh("al_"+e.so.of(elem), "(Array Int Bool)")
				e.assume(fmt.Sprintf("(= %s (store %s %s true))", nal, e.mem[ak], ref))
				e.mem[ak] = nal
				l := &Loc{base: hk, ref: ref, sort: e.so.of(elem), ty: elem}
				e.write(l, e.zero(elem))
				fr.loc[x] = l
				fr.val[x] = ref
				e.assumps["every pointer that is read from memory, passed in or returned by a call is nil or refers to an allocated object; a new object is distinct from all allocated ones"] = true
				return
			}
		}
		key := e.allocKey(fr, x)
		e.memSort[key] = e.so.of(elem)
		e.memTy[key] = elem
		z := e.zero(elem)
		e.mem[key] = e.define("z_"+x.Name(), e.memSort[key], z)
		if _, ok := e.init[key]; !ok {
			e.init[key] = e.mem[key]
		}
		fr.loc[x] = &Loc{base: key, sort: e.so.of(elem), ty: elem}
	case *ssa.FieldAddr:
		base := e.locOf(x.X)
		pt := x.X.Type().Underlying().(*types.Pointer)
		if base != nil && isCtxStruct(pt.Elem()) {
			base = nil // the address of a local copy of a rule context: the node itself
		}
		if base == nil {
			if isNodeType(pt) {
				// embedded base struct of a parser/lexer/context object: same object identity
				v := e.value(x.X)
				e.safety("nil", fmt.Sprintf("(not (= %s 0))", v), x.Pos(), x.String())
				fr.val[x] = v
				if fr.nodeField == nil {
					fr.nodeField = map[ssa.Value]Term{}
				}
				fr.nodeField[x] = v
				if db, ks := e.candKinds(x.X, v); db != nil {
					e.setCand(v, db, ks)
				}
			} else {
				e.note("FieldAddr on unknown base %s in %s", x, fnFull(fr.fn))
			}
			return
		}
		if base.ref != "" && len(base.path) == 0 {
			e.safety("nil", fmt.Sprintf("(not (= %s 0))", base.ref), x.Pos(), x.String())
			e.assumeTypeInv(base, pt.Elem())
		}
		st := pt.Elem().Underlying().(*types.Struct)
		ssort := e.so.of(pt.Elem())
		f := st.Field(x.Field)
		fi := e.so.fields[ssort]
		if len(fi) <= x.Field {
			e.note("FieldAddr into opaque struct %s", ssort)
			return
		}
		nl := &Loc{base: base.base, ref: base.ref, sort: fi[x.Field].sort, ty: f.Type()}
		nl.path = append(append([]step{}, base.path...), step{kind: "field", field: ssort + "." + f.Name(), sort: ssort, fi: x.Field})
		if fi[x.Field].opaque {
			nl.ty = nil
		}
		fr.loc[x] = nl
	case *ssa.IndexAddr:
		idx := e.value(x.Index)
		switch t := x.X.Type().Underlying().(type) {
		case *types.Slice:
			ssort := e.so.of(t)
			sv := e.value(x.X)
			e.useSlice(sv, ssort)
			e.safety("idx", fmt.Sprintf("(and (<= 0 %s) (< %s (len_%s %s)))", idx, idx, ssort, sv), x.Pos(), x.String())
			var nl *Loc
			if prov, ok := fr.prov[x.X]; ok {
				nl = &Loc{base: prov.base, ref: prov.ref, sort: e.so.of(t.Elem()), ty: t.Elem()}
				nl.path = append(append([]step{}, prov.path...), step{kind: "sliceidx", idx: idx, sort: ssort})
			} else {
				// a slice value whose elements are assigned: from here on the variable's content lives in a cell, and every
				// later use of this SSA value (len, passing it on, indexing) reads the cell
				p := e.sliceCell(fr, x.X, sv, ssort)
				nl = &Loc{base: p.base, sort: e.so.of(t.Elem()), ty: t.Elem(), path: []step{{kind: "sliceidx", idx: idx, sort: ssort}}}
			}
			fr.loc[x] = nl
		case *types.Pointer: // pointer to array
			base := e.locOf(x.X)
			arr := t.Elem().Underlying().(*types.Array)
			e.safety("idx", fmt.Sprintf("(and (<= 0 %s) (< %s %d))", idx, idx, arr.Len()), x.Pos(), x.String())
			if base == nil {
				return
			}
			nl := &Loc{base: base.base, ref: base.ref, sort: e.so.of(arr.Elem()), ty: arr.Elem()}
			nl.path = append(append([]step{}, base.path...), step{kind: "arridx", idx: idx})
			fr.loc[x] = nl
		}
	case *ssa.Store:
		l := e.locOf(x.Addr)
		if l == nil {
			e.note("Store to unknown location %s in %s", x, fnFull(fr.fn))
			return
		}
		if l.ref != "" && len(l.path) == 0 {
			e.safety("nil", fmt.Sprintf("(not (= %s 0))", l.ref), x.Pos(), x.String())
		}
		v := e.value(x.Val)
		if l.ty == nil && strings.HasPrefix(l.sort, "U_") && e.so.of(x.Val.Type()) != l.sort {
			v = e.wrapOpaque(l.sort, e.so.of(x.Val.Type()), v)
		}
		e.write(l, v)
		if p, ok := x.Val.(*ssa.Parameter); ok {
			if a, ok := x.Addr.(*ssa.Alloc); ok && a.Comment == p.Name() && len(l.path) == 0 {
				e.init[l.base] = v // the cell is the parameter variable: before the copy its value is the argument
			}
		}
		e.dropMapAliases(l)
		// copying a struct that holds maps: the maps are shared with the place the struct was loaded from
		if src, ok := fr.prov[x.Val]; ok && l.ty != nil {
			e.aliasMapFields(l, src, l.ty, 0)
		}
		// storing a pointer-to-cell: remember what the cell points to
		delete(e.ptrIn, locKey(l)) // whatever the cell was known to point to is overwritten
		if vl, ok := fr.loc[x.Val]; ok {
			if e.ptrIn == nil {
				e.ptrIn = map[string]*Loc{}
			}
			e.ptrIn[locKey(l)] = vl
		}
	case *ssa.UnOp:
		switch x.Op {
		case token.MUL:
			if v, ok := fr.nodeField[x.X]; ok && isNodeType(x.Type()) {
				// embedded base object of a runtime object: same identity (constructors initialise it)
				fr.val[x] = v
				return
			}
			l := e.locOf(x.X)
			if l == nil && isCtxStruct(x.Type()) {
				fr.val[x] = e.value(x.X) // copying a rule context by value: the same tree node
				e.safety("nil", fmt.Sprintf("(not (= %s 0))", fr.val[x]), x.Pos(), x.String())
				return
			}
			if l == nil {
				fr.val[x] = e.fresh("ld", e.so.of(x.Type()))
				return
			}
			if l.ref != "" && len(l.path) == 0 {
				e.safety("nil", fmt.Sprintf("(not (= %s 0))", l.ref), x.Pos(), x.String())
				e.assumeTypeInv(l, x.Type())
			}
			if l.ty == nil && strings.HasPrefix(l.sort, "U_") && e.so.of(x.Type()) != l.sort {
				// a field whose sort was cut to break a recursive struct definition: converted at the boundary
				fr.val[x] = e.define("ld_"+x.Name(), e.so.of(x.Type()), e.unwrapOpaque(l.sort, e.so.of(x.Type()), e.read(l)))
				e.assumeWF(fr.val[x], x.Type(), 1)
				return
			}
			fr.val[x] = e.define("ld_"+x.Name(), e.so.of(x.Type()), e.read(l))
			fr.prov[x] = l
			e.assumeAllocated(fr.val[x], x.Type())
			if e.ptrIn != nil {
				if pl, ok := e.ptrIn[locKey(l)]; ok {
					fr.loc[x] = pl
				}
			}
		case token.NOT:
			fr.val[x] = fmt.Sprintf("(not %s)", e.value(x.X))
		case token.SUB:
			fr.val[x] = fmt.Sprintf("(- %s)", e.value(x.X))
		default:
			fr.val[x] = e.fresh("unop", e.so.of(x.Type()))
			e.note("unmodelled unary op %s", x.Op)
		}
	case *ssa.BinOp:
		fr.val[x] = e.define("b_"+x.Name(), e.so.of(x.Type()), e.binop(x))
	case *ssa.Phi:
		if fr.loopHead[b] {
			return // handled in loopHeader
		}
		var t Term
		var l0 *Loc
		agree := true
		for i := len(b.Preds) - 1; i >= 0; i-- {
			p := b.Preds[i]
			if _, ok := fr.atEnd[p]; !ok {
				continue
			}
			pv := e.value(x.Edges[i])
			if l, ok := fr.loc[x.Edges[i]]; ok {
				if l0 == nil {
					l0 = l
				} else if l0 != l {
					agree = false
				}
			} else {
				agree = false
			}
			if t == "" {
				t = pv
			} else {
				t = fmt.Sprintf("(ite %s %s %s)", e.edgeCond(p, b), pv, t)
			}
		}
		if _, isMap := x.Type().Underlying().(*types.Map); isMap {
			// a map variable re-assigned on some paths (m = f(m)): if every incoming value is the same map, the phi is that map
			var p0 *Loc
			same := true
			for i := range b.Preds {
				if _, ok := fr.atEnd[b.Preds[i]]; !ok {
					continue
				}
				p, ok := fr.prov[x.Edges[i]]
				if !ok || (p0 != nil && locKey(p0) != locKey(p)) {
					same = false
					break
				}
				p0 = p
			}
			if same && p0 != nil {
				fr.prov[x] = p0
			}
		}
		if t == "" {
			t = e.fresh("phi_dead", e.so.of(x.Type()))
		}
		fr.val[x] = e.define("phi_"+x.Name(), e.so.of(x.Type()), t)
		if agree && l0 != nil {
			fr.loc[x] = l0
		}
	case *ssa.Field:
		ssort := e.so.of(x.X.Type())
		fi := e.so.fields[ssort]
		if len(fi) <= x.Field {
			fr.val[x] = e.fresh("fld", e.so.of(x.Type()))
			return
		}
		fr.val[x] = fmt.Sprintf("(%s.%s %s)", ssort, fi[x.Field].name, e.value(x.X))
		if fi[x.Field].opaque {
			if strings.HasPrefix(fi[x.Field].sort, "U_") && e.so.of(x.Type()) != fi[x.Field].sort {
				fr.val[x] = e.define("fld", e.so.of(x.Type()), e.unwrapOpaque(fi[x.Field].sort, e.so.of(x.Type()), fr.val[x]))
				e.assumeWF(fr.val[x], x.Type(), 1)
			} else {
				fr.val[x] = e.fresh("opqfld", e.so.of(x.Type()))
			}
		}
	case *ssa.Extract:
		if tup, ok := fr.tuples[x.Tuple]; ok && x.Index < len(tup) {
			fr.val[x] = tup[x.Index]
			if ls, ok := fr.tupleLocs[x.Tuple]; ok && ls[x.Index] != nil {
				fr.loc[x] = ls[x.Index]
			}
			if p, ok := fr.tupleProvs[x.Tuple]; ok && x.Index == 0 {
				fr.prov[x] = p
			}
			if ps, ok := fr.tupleProvIdx[x.Tuple]; ok && ps[x.Index] != nil {
				fr.prov[x] = ps[x.Index]
			}
		} else {
			fr.val[x] = e.fresh("ext", e.so.of(x.Type()))
			e.assumeWF(fr.val[x], x.Type(), 1)
		}
	case *ssa.Slice:
		e.slice(x)
	case *ssa.Lookup:
		e.lookup(x)
	case *ssa.MapUpdate:
		m := e.value(x.Map)
		if p, ok := fr.prov[x.Map]; ok {
			m = e.read(p)
		}
		ms := e.so.of(x.Map.Type())
		e.safety("mapnil", fmt.Sprintf("(not (nil_%s %s))", ms, m), x.Pos(), x.String())
		if _, fresh := x.Map.(*ssa.MakeMap); e.recordCommute && fr.activeRange != nil && fr.activeRange.curKey != "" && e.value(x.Key) != fr.activeRange.curKey && inRangeBody(fr, b, fr.activeRange) &&
			!(fresh && inRangeBody(fr, x.Map.(*ssa.MakeMap).Block(), fr.activeRange)) {
			val := e.value(x.Value)
			if l, ok := fr.loc[x.Value]; ok {
				val = e.read(l) // a pointer to a freshly built struct: compare the contents
			}
			e.commuteSites = append(e.commuteSites, commuteSite{ord: fr.activeRange.ord, pos: x.Pos(), at: fr.cur, key: e.value(x.Key), val: val, rk: fr.activeRange.curKey,
				nd0: fr.activeRange.nd0, nf0: fr.activeRange.nf0, nd1: len(e.decls), nf1: len(e.defs), text: x.String()})
		}
		e.checkFreshMaps(fr, x)
		nv := fmt.Sprintf("(mk_%s (store (dom_%s %s) %s true) (store (val_%s %s) %s %s) false)", ms, ms, m, e.value(x.Key), ms, m, e.value(x.Key), e.value(x.Value))
		if prov, ok := fr.prov[x.Map]; ok {
			e.write(prov, nv)
			for _, other := range e.mapAliasesOf(prov) {
				e.write(other, nv)
			}
			// keep the SSA value usable for later updates through the same register (maps are references)
			fr.val[x.Map] = e.read(prov)
		} else {
			e.note("MapUpdate without provenance %s in %s", x, fnFull(fr.fn))
			e.outOfSubset = append(e.outOfSubset, "map update through a map value of unknown origin: "+x.String())
		}
	case *ssa.MakeMap:
		ms := e.so.of(x.Type())
		mt := x.Type().Underlying().(*types.Map)
		key := fmt.Sprintf("M:%s:%d:%s", clean(fr.fn.Name()), fr.depth, x.Name())
		e.memSort[key] = ms
		e.memTy[key] = x.Type()
		e.zvalFacts(ms, mt)
		empty := fmt.Sprintf("(mk_%s ((as const (Array %s Bool)) false) %s false)", ms, e.so.of(mt.Key()), e.uf("zval_"+clean(ms), nil, fmt.Sprintf("(Array %s %s)", e.so.of(mt.Key()), e.so.of(mt.Elem()))))
		e.mem[key] = e.define("mkmap", ms, empty)
		e.init[key] = e.mem[key]
		fr.val[x] = e.mem[key]
		fr.prov[x] = &Loc{base: key, sort: ms, ty: x.Type()}
	case *ssa.MakeSlice:
		ss := e.so.of(x.Type())
		st := x.Type().Underlying().(*types.Slice)
		n := e.value(x.Len)
		e.safety("makeslice", fmt.Sprintf("(>= %s 0)", n), x.Pos(), x.String())
		z := e.zero(st.Elem())
		if isValueTerm(z) {
			fr.val[x] = e.define("mksl", ss, fmt.Sprintf("(mk_%s ((as const (Array Int %s)) %s) %s false)", ss, e.so.of(st.Elem()), z, n))
		} else {
			arr := e.fresh("mkarr", fmt.Sprintf("(Array Int %s)", e.so.of(st.Elem())))
			e.assume(fmt.Sprintf("(forall ((i Int)) (! (= (select %s i) %s) :pattern ((select %s i))))", arr, z, arr))
			fr.val[x] = e.define("mksl", ss, fmt.Sprintf("(mk_%s %s %s false)", ss, arr, n))
		}
	case *ssa.MakeInterface:
		e.makeInterface(x)
	case *ssa.MakeClosure:
		fr.val[x] = e.fresh("closure", "Int")
		fr.closures = append(fr.closures, x)
	case *ssa.ChangeInterface:
		fr.val[x] = e.value(x.X)
	case *ssa.ChangeType:
		fr.val[x] = e.value(x.X)
		if l, ok := fr.loc[x.X]; ok {
			fr.loc[x] = l
		}
	case *ssa.Convert:
		e.convert(x)
	case *ssa.TypeAssert:
		e.typeAssert(x)
	case *ssa.Call:
		e.call(x)
	case *ssa.Range:
		e.rangeInit(x)
	case *ssa.Next:
		e.rangeNext(b, x)
	case *ssa.If, *ssa.Jump:
	case *ssa.Return:
		var vals []Term
		for _, r := range x.Results {
			vals = append(vals, e.value(r))
		}
		ri := retInfo{at: fr.cur, vals: vals, mem: copyMem(e.mem), pos: x.Pos(), ptr: map[string]*Loc{}}
		for k, v := range e.ptrIn {
			ri.ptr[k] = v
		}
		for i, r := range x.Results {
			if _, isMap := r.Type().Underlying().(*types.Map); isMap {
				if p, ok := fr.prov[r]; ok {
					if ri.provs == nil {
						ri.provs = map[int]*Loc{}
					}
					ri.provs[i] = p
				}
			}
		}
		for i, r := range x.Results {
			if l, ok := fr.loc[r]; ok {
				if ri.locs == nil {
					ri.locs = map[int]*Loc{}
				}
				ri.locs[i] = l
			}
		}
		fr.returns = append(fr.returns, ri)
		if fr.depth == 0 && fr.contract != nil && len(fr.contract.AtReturn) > 0 {
			fr.nret++
			for i, cl := range fr.contract.AtReturn {
				env := e.fnEnv(fr, e.mem)
				mem := e.mem
				env.locals = func(name string) (tval, bool) { return e.lookupLocal(fr, nil, nil, mem, name) }
				for j, v := range vals {
					env.results = append(env.results, e.mkT(v, x.Results[j].Type()))
				}
				g, err := e.specBool(env, cl.E)
				if err != nil {
					e.contractError(fr, fmt.Sprintf("assert return %d: %v", i+1, err))
					continue
				}
				e.oblige(fmt.Sprintf("assert-return#%d.%d", fr.nret, i+1), g, x.Pos(), cl.Text)
			}
		}
		for i, r := range x.Results {
			if l, ok := fr.loc[r]; ok {
				if fr.retLocs == nil {
					fr.retLocs = map[int]*Loc{}
				}
				if old, ok := fr.retLocs[i]; ok && old != l {
					fr.retLocConflict = true
				}
				fr.retLocs[i] = l
			}
		}
	case *ssa.Panic:
		e.safety("panic", "false", x.Pos(), x.String())
		fr.cur = "false"
	case *ssa.Defer, *ssa.RunDefers, *ssa.Go, *ssa.Send, *ssa.Select:
		e.outOfSubset = append(e.outOfSubset, fmt.Sprintf("%T in %s", in, fnFull(fr.fn)))
		if v, ok := in.(ssa.Value); ok {
			fr.val[v] = e.fresh("oos", e.so.of(v.Type()))
		}
	default:
		e.note("unmodelled instr %T: %s in %s", in, in, fnFull(fr.fn))
		if v, ok := in.(ssa.Value); ok {
			fr.val[v] = e.fresh("unk", e.so.of(v.Type()))
		}
	}
}

// wrapOpaque / unwrapOpaque: conversions between a field sort cut off to break a recursive datatype and the real sort
func (e *enc) unwrapOpaque(u, s string, t Term) Term {
	f := e.uf("unw_"+clean(u), []string{u}, s)
	return fmt.Sprintf("(%s %s)", f, t)
}

func (e *enc) wrapOpaque(u, s string, t Term) Term {
	f := e.uf("wrp_"+clean(u), []string{s}, u)
	g := e.uf("unw_"+clean(u), []string{u}, s)
	e.once("wrapax#"+u, func() {
		e.decls = append(e.decls, fmt.Sprintf("(assert (forall ((x %s)) (! (= (%s (%s x)) x) :pattern ((%s x)))))", s, g, f, f))
	})
	return fmt.Sprintf("(%s %s)", f, t)
}

// checkFreshMaps: the model writes a map held as a value of another map back into its entry, which is only right if no
// two entries hold the same map. Obligation (syntactic, per store): every map placed into an entry — directly or as a
// field of the stored struct — is a `make` executed in the same iteration of every loop around the store.
func (e *enc) checkFreshMaps(fr *frame, x *ssa.MapUpdate) {
	var srcs []ssa.Value
	switch vt := x.Value.Type().Underlying().(type) {
	case *types.Map:
		srcs = append(srcs, x.Value)
	case *types.Struct:
		hasMap := false
		for i := 0; i < vt.NumFields(); i++ {
			if _, ok := vt.Field(i).Type().Underlying().(*types.Map); ok {
				hasMap = true
			}
		}
		if !hasMap {
			return
		}
		// the stored struct is loaded from a composite literal: collect the maps stored into its fields
		u, ok := x.Value.(*ssa.UnOp)
		if !ok {
			srcs = append(srcs, nil)
			break
		}
		al, ok := u.X.(*ssa.Alloc)
		if !ok || al.Referrers() == nil {
			srcs = append(srcs, nil)
			break
		}
		for _, r := range *al.Referrers() {
			fa, ok := r.(*ssa.FieldAddr)
			if !ok || fa.Referrers() == nil {
				continue
			}
			if _, isMap := fa.Type().(*types.Pointer).Elem().Underlying().(*types.Map); !isMap {
				continue
			}
			for _, rr := range *fa.Referrers() {
				if st, ok := rr.(*ssa.Store); ok && st.Addr == ssa.Value(fa) {
					srcs = append(srcs, st.Val)
				}
			}
		}
	default:
		return
	}
	ok := true
	why := ""
	for _, s := range srcs {
		mm, isMake := s.(*ssa.MakeMap)
		if s == nil || !isMake {
			if c, isConst := s.(*ssa.Const); isConst && c.IsNil() {
				continue
			}
			ok, why = false, "a stored map is not a fresh make(map) of this function"
			break
		}
		// every loop containing the store must contain the make
		for h := range fr.loopHead {
			body := fr.loopBlocks(h)
			if body[x.Block()] && !body[mm.Block()] {
				ok, why = false, fmt.Sprintf("the map made at %s is stored into an entry on every iteration of a loop that does not re-make it", e.w.Prog.Fset.Position(mm.Pos()))
			}
		}
	}
	goal := "true"
	if !ok {
		goal = "false"
	}
	save := fr.cur
	fr.cur = "true"
	e.oblige("share", goal, x.Pos(), "maps stored into map entries are fresh per entry (no two entries share a map) "+why)
	fr.cur = save
}

// sliceCell: the cell holding the current content of a slice variable whose elements are assigned in place
func (e *enc) sliceCell(fr *frame, v ssa.Value, sv Term, ssort string) *Loc {
	if p, ok := fr.prov[v]; ok {
		return p
	}
	key := fmt.Sprintf("V:%s:%d:%s", clean(fr.fn.Name()), fr.depth, v.Name())
	e.memSort[key] = ssort
	e.memTy[key] = v.Type()
	e.mem[key] = sv
	e.init[key] = sv
	if e.vcell == nil {
		e.vcell = map[string]Term{}
	}
	e.vcell[key] = sv
	p := &Loc{base: key, sort: ssort, ty: v.Type()}
	fr.prov[v] = p
	e.assumps["slices: an element assignment s[i] = v is visible through the variable s itself (and what is later derived from it); other variables sharing the backing array are not tracked"] = true
	return p
}

func locKey(l *Loc) string {
	s := l.base + "|" + l.ref
	for _, p := range l.path {
		s += "|" + p.kind + ":" + p.field + ":" + p.idx
	}
	return s
}

func (e *enc) binop(x *ssa.BinOp) Term {
	l, r := e.value(x.X), e.value(x.Y)
	s := e.so.of(x.X.Type())
	switch x.Op {
	case token.ADD:
		if s == "String" {
			return fmt.Sprintf("(str.++ %s %s)", l, r)
		}
		return fmt.Sprintf("(+ %s %s)", l, r)
	case token.SUB:
		return fmt.Sprintf("(- %s %s)", l, r)
	case token.MUL:
		return fmt.Sprintf("(* %s %s)", l, r)
	case token.QUO:
		if s == "Real" {
			return fmt.Sprintf("(/ %s %s)", l, r)
		}
		e.safety("div", fmt.Sprintf("(not (= %s 0))", r), x.Pos(), x.String())
		// Go truncates toward zero
		return fmt.Sprintf("(ite (>= %s 0) (div %s %s) (- (div (- %s) %s)))", l, l, r, l, r)
	case token.REM:
		e.safety("div", fmt.Sprintf("(not (= %s 0))", r), x.Pos(), x.String())
		return fmt.Sprintf("(ite (>= %s 0) (mod %s %s) (- (mod (- %s) %s)))", l, l, r, l, r)
	case token.EQL, token.NEQ:
		var eq Term
		switch x.X.Type().Underlying().(type) {
		case *types.Slice, *types.Map:
			eq = fmt.Sprintf("(nil_%s %s)", s, pickNonNil(x, l, r))
		case *types.Pointer:
			// pointer-to-cell compared with nil
			if _, ok := e.fr.loc[x.X]; ok && isNilConst(x.Y) {
				eq = "false"
			} else if _, ok := e.fr.loc[x.Y]; ok && isNilConst(x.X) {
				eq = "false"
			} else {
				eq = fmt.Sprintf("(= %s %s)", l, r)
			}
		default:
			eq = fmt.Sprintf("(= %s %s)", l, r)
		}
		if x.Op == token.NEQ {
			return "(not " + eq + ")"
		}
		return eq
	case token.LSS, token.LEQ, token.GTR, token.GEQ:
		if s == "String" {
			switch x.Op {
			case token.LSS:
				return fmt.Sprintf("(str.< %s %s)", l, r)
			case token.LEQ:
				return fmt.Sprintf("(str.<= %s %s)", l, r)
			case token.GTR:
				return fmt.Sprintf("(str.< %s %s)", r, l)
			default:
				return fmt.Sprintf("(str.<= %s %s)", r, l)
			}
		}
		op := map[token.Token]string{token.LSS: "<", token.LEQ: "<=", token.GTR: ">", token.GEQ: ">="}[x.Op]
		return fmt.Sprintf("(%s %s %s)", op, l, r)
	case token.LAND:
		return fmt.Sprintf("(and %s %s)", l, r)
	case token.LOR:
		return fmt.Sprintf("(or %s %s)", l, r)
	}
	e.note("unmodelled binary op %s", x.Op)
	return e.fresh("binop", e.so.of(x.Type()))
}

func isNilConst(v ssa.Value) bool {
	c, ok := v.(*ssa.Const)
	return ok && c.Value == nil
}

func pickNonNil(x *ssa.BinOp, l, r Term) Term {
	if isNilConst(x.X) {
		return r
	}
	return l
}

func (e *enc) slice(x *ssa.Slice) {
	fr := e.fr
	lo, hi := "0", ""
	if x.Low != nil {
		lo = e.value(x.Low)
	}
	switch t := x.X.Type().Underlying().(type) {
	case *types.Basic: // string
		s := e.value(x.X)
		if x.High != nil {
			hi = e.value(x.High)
		} else {
			hi = fmt.Sprintf("(str.len %s)", s)
		}
		e.safety("slice", fmt.Sprintf("(and (<= 0 %s) (<= %s %s) (<= %s (str.len %s)))", lo, lo, hi, hi, s), x.Pos(), x.String())
		fr.val[x] = e.define("sl_"+x.Name(), "String", fmt.Sprintf("(str.substr %s %s (- %s %s))", s, lo, hi, lo))
	case *types.Slice:
		s := e.value(x.X)
		ss := e.so.of(t)
		e.useSlice(s, ss)
		if x.High != nil {
			hi = e.value(x.High)
			// capacity is not modelled: require hi <= len (stricter than Go; reslicing up to cap is flagged)
			e.safety("slice", fmt.Sprintf("(and (<= 0 %s) (<= %s %s) (<= %s (len_%s %s)))", lo, lo, hi, hi, ss, s), x.Pos(), x.String())
		} else {
			hi = fmt.Sprintf("(len_%s %s)", ss, s)
			e.safety("slice", fmt.Sprintf("(and (<= 0 %s) (<= %s %s))", lo, lo, hi), x.Pos(), x.String())
		}
		if lo == "0" {
			fr.val[x] = e.define("sl_"+x.Name(), ss, fmt.Sprintf("(mk_%s (arr_%s %s) %s false)", ss, ss, s, hi))
			if p, ok := fr.prov[x.X]; ok && x.High == nil {
				fr.prov[x] = p
			}
		} else {
			arr := e.fresh("slarr", fmt.Sprintf("(Array Int %s)", e.so.of(t.Elem())))
			e.assume(fmt.Sprintf("(forall ((i Int)) (! (=> (<= 0 i) (= (select %s i) (select (arr_%s %s) (+ i %s)))) :pattern ((select %s i))))", arr, ss, s, lo, arr))
			fr.val[x] = e.define("sl_"+x.Name(), ss, fmt.Sprintf("(mk_%s %s (- %s %s) false)", ss, arr, hi, lo))
		}
	case *types.Pointer: // pointer to array -> slice
		base := e.locOf(x.X)
		arr := t.Elem().Underlying().(*types.Array)
		ss := e.so.of(x.Type())
		if x.High != nil {
			hi = e.value(x.High)
		} else {
			hi = fmt.Sprint(arr.Len())
		}
		if base == nil {
			fr.val[x] = e.fresh("sl", ss)
			return
		}
		fr.val[x] = e.define("sl_"+x.Name(), ss, fmt.Sprintf("(mk_%s %s %s false)", ss, e.read(base), hi))
	}
}

func (e *enc) lookup(x *ssa.Lookup) {
	fr := e.fr
	if mt, ok := x.X.Type().Underlying().(*types.Map); ok {
		m := e.value(x.X)
		if p, ok := fr.prov[x.X]; ok {
			m = e.read(p)
		}
		ms := e.so.of(x.X.Type())
		k := e.value(x.Index)
		e.useMap(m, ms, mt)
		v := fmt.Sprintf("(select (val_%s %s) %s)", ms, m, k)
		defer func() {
			if t, ok := fr.val[x]; ok {
				e.assumeAllocated(t, mt.Elem())
			} else if tup, ok := fr.tuples[x]; ok {
				e.assumeAllocated(tup[0], mt.Elem())
			}
		}()
		if x.CommaOk {
			fr.tuples[x] = []Term{e.define("lk_"+x.Name(), e.so.of(mt.Elem()), v), e.define("lkok_"+x.Name(), "Bool", fmt.Sprintf("(select (dom_%s %s) %s)", ms, m, k))}
		} else {
			fr.val[x] = e.define("lk_"+x.Name(), e.so.of(mt.Elem()), v)
		}
		// a map held as a value of this map: updates through the looked-up value are written back into the entry
		if _, inner := mt.Elem().Underlying().(*types.Map); inner {
			if p, ok := fr.prov[x.X]; ok {
				kc := e.define("lkkey", e.so.of(mt.Key()), k)
				np := &Loc{base: p.base, ref: p.ref, sort: e.so.of(mt.Elem()), ty: mt.Elem()}
				np.path = append(append([]step{}, p.path...), step{kind: "mapval", idx: kc, sort: ms})
				if x.CommaOk {
					if fr.tupleProvs == nil {
						fr.tupleProvs = map[ssa.Value]*Loc{}
					}
					fr.tupleProvs[x] = np
				} else {
					fr.prov[x] = np
				}
				e.assumps["a map stored as a value of another map is held by that entry only (no sharing between entries)"] = true
			}
		}
		return
	}
	s, i := e.value(x.X), e.value(x.Index)
	e.safety("idx", fmt.Sprintf("(and (<= 0 %s) (< %s (str.len %s)))", i, i, s), x.Pos(), x.String())
	fr.val[x] = e.define("ch_"+x.Name(), "Int", fmt.Sprintf("(str.to_code (str.at %s %s))", s, i))
}

func (e *enc) convert(x *ssa.Convert) {
	fr := e.fr
	from, to := e.so.of(x.X.Type()), e.so.of(x.Type())
	v := e.value(x.X)
	switch {
	case from == to && from != "Int":
		fr.val[x] = v
	case from == "Int" && to == "Int":
		fr.val[x] = v // machine arithmetic treated as mathematical (assumption)
	case from == "Int" && to == "String":
		// string(rune)
		fr.val[x] = e.define("runestr", "String", fmt.Sprintf("(str.from_code %s)", v))
		e.assumps["string(rune) modelled as one SMT character (ASCII range only is exact)"] = true
	case from == "String" && strings.HasPrefix(to, "Slice_"):
		// []byte(s) / []rune(s): length facts; []byte(s) is a function of s that string(...) inverts
		r := e.fresh("conv", to)
		st := x.Type().Underlying().(*types.Slice)
		if b, ok := st.Elem().Underlying().(*types.Basic); ok && b.Kind() == types.Uint8 {
			bo := e.uf("BytesOf", []string{"String"}, to)
			so := e.uf("StrOf", []string{to}, "String")
			r = e.define("bytes", to, fmt.Sprintf("(%s %s)", bo, v))
			e.assume(fmt.Sprintf("(= (%s %s) %s)", so, r, v))
			e.assume(fmt.Sprintf("(and (= (len_%s %s) (str.len %s)) (not (nil_%s %s)))", to, r, v, to, r))
			e.assume(fmt.Sprintf("(forall ((i Int)) (! (=> (and (<= 0 i) (< i (str.len %s))) (= (select (arr_%s %s) i) (str.to_code (str.at %s i)))) :pattern ((select (arr_%s %s) i))))", v, to, r, v, to, r))
		} else {
			rc := e.uf("RuneCount", []string{"String"}, "Int")
			e.declRuneCountAxioms()
			e.assume(fmt.Sprintf("(and (= (len_%s %s) (%s %s)) (not (nil_%s %s)))", to, r, rc, v, to, r))
		}
		fr.val[x] = r
	case strings.HasPrefix(from, "Slice_") && to == "String":
		r := e.fresh("conv", "String")
		st := x.X.Type().Underlying().(*types.Slice)
		if b, ok := st.Elem().Underlying().(*types.Basic); ok && b.Kind() == types.Uint8 {
			so := e.uf("StrOf", []string{from}, "String")
			r = e.define("str", "String", fmt.Sprintf("(%s %s)", so, v))
			e.assume(fmt.Sprintf("(= (str.len %s) (len_%s %s))", r, from, v))
			e.assume(fmt.Sprintf("(forall ((i Int)) (! (=> (and (<= 0 i) (< i (str.len %s))) (= (select (arr_%s %s) i) (str.to_code (str.at %s i)))) :pattern ((select (arr_%s %s) i))))", r, from, v, r, from, v))
		}
		fr.val[x] = r
	default:
		fr.val[x] = e.fresh("conv", to)
		e.note("unmodelled conversion %s -> %s", x.X.Type(), x.Type())
	}
}

func (e *enc) declRuneCountAxioms() {
	if e.ufs["RuneCount#ax"] {
		return
	}
	e.ufs["RuneCount#ax"] = true
	e.assumps["RuneCount axioms: 0 <= RuneCount(s) <= len(s); RuneCount(s)==0 iff s==\"\""] = true
	e.decls = append(e.decls, "(assert (forall ((s String)) (! (and (<= 0 (RuneCount s)) (<= (RuneCount s) (str.len s)) (= (= (RuneCount s) 0) (= s \"\"))) :pattern ((RuneCount s)))))")
}

func (e *enc) makeInterface(x *ssa.MakeInterface) {
	fr := e.fr
	if isNodeType(x.X.Type()) || isIface(x.X.Type()) {
		fr.val[x] = e.value(x.X)
		if isNodeType(x.X.Type()) {
			e.candKinds(x.X, fr.val[x]) // remember the static kind of a context converted to a runtime interface
		}
		return
	}
	// boxing a Go value: an object id whose payload is recoverable by type assertion to the same sort
	s := e.so.of(x.X.Type())
	box := e.uf(fmt.Sprintf("box_%s_t%d", clean(s), e.typeTag(x.X.Type())), []string{s}, "Int") // one boxing function per Go type: equal payloads of different types are different interface values
	unbox := e.uf("unbox_"+clean(s), []string{"Int"}, s)
	tag := e.uf("dyntag", []string{"Int"}, "Int")
	v := e.value(x.X)
	id := e.define("iface", "Int", fmt.Sprintf("(%s %s)", box, v))
	e.assume(fmt.Sprintf("(and (> %s 0) (= (%s %s) %s) (= (%s %s) %d))", id, unbox, id, v, tag, id, e.typeTag(x.X.Type())))
	fr.val[x] = id
	if l, ok := fr.loc[x.X]; ok {
		fr.loc[x] = l
	}
}

func (e *enc) typeTag(t types.Type) int {
	if e.tags == nil {
		e.tags = map[string]int{}
	}
	k := t.String()
	if n, ok := e.tags[k]; ok {
		return n
	}
	n := len(e.tags) + 1
	e.tags[k] = n
	return n
}

func (e *enc) typeAssert(x *ssa.TypeAssert) {
	fr := e.fr
	v := e.value(x.X)
	if isNodeType(x.AssertedType) || isNodeType(x.X.Type()) {
		e.nodeTypeAssert(x, v)
		return
	}
	if isIface(x.AssertedType) {
		if x.CommaOk {
			fr.tuples[x] = []Term{v, e.fresh("taok", "Bool")}
		} else {
			e.safety("tassert", fmt.Sprintf("(not (= %s 0))", v), x.Pos(), x.String())
			fr.val[x] = v
		}
		return
	}
	s := e.so.of(x.AssertedType)
	unbox := e.uf("unbox_"+clean(s), []string{"Int"}, s)
	tag := e.uf("dyntag", []string{"Int"}, "Int")
	ok := fmt.Sprintf("(and (not (= %s 0)) (= (%s %s) %d))", v, tag, v, e.typeTag(x.AssertedType))
	val := fmt.Sprintf("(%s %s)", unbox, v)
	if isGoAst(x.X.Type()) && isGoAst(x.AssertedType) {
		if _, isPtr := x.AssertedType.Underlying().(*types.Pointer); isPtr {
			// a parser-produced tree holds no typed nil: a non-nil Expr / Stmt / Node value is a non-nil node
			e.assumps["go/ast trees as produced by go/parser: interface-typed fields hold no typed-nil pointers"] = true
			e.assume(fmt.Sprintf("(=> %s (not (= %s 0)))", ok, val))
		}
	}
	if x.CommaOk {
		okT := e.define("taok", "Bool", ok)
		fr.tuples[x] = []Term{e.define("ta", s, fmt.Sprintf("(ite %s %s %s)", okT, val, e.zero(x.AssertedType))), okT}
	} else {
		e.safety("tassert", ok, x.Pos(), x.String())
		fr.val[x] = e.define("ta", s, val)
		e.assumeWF(fr.val[x], x.AssertedType, 1)
	}
}

// assumeTypeInv: the declared invariants of an external data type (typeinv clauses: go/parser's documented output shape
// for go/ast nodes) are assumed for the struct a non-nil pointer of that type refers to, on the path that dereferences it.
// Trusted, and listed. The repository never writes into such structs (checked once per run: see goAstWritten).
func (e *enc) assumeTypeInv(l *Loc, elem types.Type) {
	n, ok := elem.(*types.Named)
	if !ok || n.Obj().Pkg() == nil || e.ss == nil || len(e.ss.TypeInvs) == 0 {
		return
	}
	key := n.Obj().Pkg().Path() + "." + n.Obj().Name()
	cls := e.ss.TypeInvs[key]
	if len(cls) == 0 || e.w.extWritten(n.Obj().Pkg().Path()) {
		return
	}
	whole := &Loc{base: l.base, ref: l.ref, sort: e.so.of(elem), ty: elem}
	sv := e.read(whole)
	dk := "typeinv#" + key + "#" + sv + "#" + e.fr.cur
	if e.ufs[dk] {
		return
	}
	e.ufs[dk] = true
	env := &specEnv{e: e, fr: e.fr, vars: map[string]tval{"self": e.mkT(sv, elem)}, ptrLoc: map[string]*Loc{}, mem: e.mem}
	if e.fr.fn != nil && e.fr.fn.Pkg != nil {
		env.pkg = e.fr.fn.Pkg.Pkg
	}
	for i, c := range cls {
		g, err := e.specBool(env, c.E)
		if err != nil {
			e.contractError(e.fr, fmt.Sprintf("typeinv %s #%d: %v", key, i+1, err))
			continue
		}
		e.assumeAt(fmt.Sprintf("(=> (not (= %s 0)) %s)", l.ref, g))
	}
	e.assumps["typeinv "+key+" (external data invariant, trusted): "+joinClauses(cls)] = true
}

func joinClauses(cs []Clause) string {
	var ts []string
	for _, c := range cs {
		ts = append(ts, c.Text)
	}
	return strings.Join(ts, " && ")
}
