package main

import (
	"go/token"
	"go/types"
	"strings"

	"golang.org/x/tools/go/ssa"
)

// frameInfo: package-level variables a function (transitively, through static callees) reads / writes.
type frameInfo struct {
	reads   map[*ssa.Global]bool
	writes  map[*ssa.Global]bool
	assigns map[*ssa.Global]bool // written by a Store (as opposed to updated through a map held in it)
	heap    bool // stores through pointers that are not rooted at a global or a local cell
	dynamic bool // calls through function values / interface methods of /repo types
	fs      bool // writes files (ioutil.WriteFile / os.WriteFile), directly or through callees
	done    bool
}

var frameCache = map[*ssa.Function]*frameInfo{}

// rootGlobal: the global a pointer expression is rooted at (through FieldAddr/IndexAddr/loads of maps/slices), or nil.
func rootGlobal(v ssa.Value, depth int) *ssa.Global {
	if depth > 12 {
		return nil
	}
	switch x := v.(type) {
	case *ssa.Global:
		return x
	case *ssa.FieldAddr:
		return rootGlobal(x.X, depth+1)
	case *ssa.IndexAddr:
		return rootGlobal(x.X, depth+1)
	case *ssa.UnOp:
		if x.Op == token.MUL {
			if _, isPtr := x.Type().Underlying().(*types.Pointer); isPtr {
				return nil // a store through a pointer held in a global goes to the heap object, not to the global
			}
			return rootGlobal(x.X, depth+1)
		}
	case *ssa.Slice:
		return rootGlobal(x.X, depth+1)
	case *ssa.Extract:
		return nil
	case *ssa.ChangeType:
		return rootGlobal(x.X, depth+1)
	}
	return nil
}

// assignsGlobal: the store replaces (part of) the global's own value, not something reached through a load
func assignsGlobal(v ssa.Value, depth int) bool {
	if depth > 12 {
		return true
	}
	switch x := v.(type) {
	case *ssa.Global:
		return true
	case *ssa.FieldAddr:
		return assignsGlobal(x.X, depth+1)
	case *ssa.IndexAddr:
		if _, isSlice := x.X.Type().Underlying().(*types.Slice); isSlice {
			return false
		}
		return assignsGlobal(x.X, depth+1)
	}
	return false
}

func rootIsLocal(v ssa.Value, depth int) bool {
	if depth > 12 {
		return false
	}
	switch x := v.(type) {
	case *ssa.Alloc:
		return true
	case *ssa.FieldAddr:
		return rootIsLocal(x.X, depth+1)
	case *ssa.IndexAddr:
		return rootIsLocal(x.X, depth+1)
	case *ssa.MakeMap, *ssa.MakeSlice:
		return true
	case *ssa.Slice:
		return rootIsLocal(x.X, depth+1)
	case *ssa.UnOp:
		if x.Op == token.MUL {
			return rootIsLocal(x.X, depth+1)
		}
	case *ssa.Phi:
		for _, e := range x.Edges {
			if e != ssa.Value(x) && !rootIsLocal(e, depth+1) {
				return false
			}
		}
		return true
	case *ssa.Call:
		// append(...) result
		if b, ok := x.Call.Value.(*ssa.Builtin); ok && b.Name() == "append" {
			return true
		}
	}
	return false
}

func inRepo(fn *ssa.Function) bool {
	return fn != nil && fn.Pkg != nil && strings.HasPrefix(fn.Pkg.Pkg.Path(), modPath) && !strings.Contains(fn.Pkg.Pkg.Path(), "/languages/")
}

func (w *World) frameOf(fn *ssa.Function) *frameInfo {
	if fi, ok := frameCache[fn]; ok {
		return fi
	}
	fi := &frameInfo{reads: map[*ssa.Global]bool{}, writes: map[*ssa.Global]bool{}, assigns: map[*ssa.Global]bool{}}
	frameCache[fn] = fi
	if !inRepo(fn) || fn.Blocks == nil {
		fi.done = true
		return fi
	}
	var callees []*ssa.Function
	for _, b := range fn.Blocks {
		for _, in := range b.Instrs {
			switch x := in.(type) {
			case *ssa.Store:
				if g := rootGlobal(x.Addr, 0); g != nil {
					fi.writes[g] = true
					if assignsGlobal(x.Addr, 0) {
						fi.assigns[g] = true
					}
				} else if !rootIsLocal(x.Addr, 0) {
					if _, isParam := rootParam(x.Addr, 0); !isParam {
						fi.heap = true
					} else {
						fi.heap = true
					}
				}
			case *ssa.MapUpdate:
				if g := rootGlobal(x.Map, 0); g != nil {
					fi.writes[g] = true
				} else if !rootIsLocal(x.Map, 0) {
					fi.heap = true
				}
			case *ssa.UnOp:
				if x.Op == token.MUL {
					if g := rootGlobal(x.X, 0); g != nil {
						fi.reads[g] = true
					}
				}
			case *ssa.Call:
				c := x.Common()
				if c.IsInvoke() {
					if recvInRepo(c.Value.Type()) {
						fi.dynamic = true
					}
					continue
				}
				if cal := c.StaticCallee(); cal != nil {
					if n := cal.String(); n == "io/ioutil.WriteFile" || n == "os.WriteFile" {
						fi.fs = true
					}
					callees = append(callees, cal)
				} else if mc, ok := c.Value.(*ssa.MakeClosure); ok {
					callees = append(callees, mc.Fn.(*ssa.Function))
				} else if _, ok := c.Value.(*ssa.Builtin); !ok {
					// call through a function value: a package-level func var assigned once is resolved
					if u, ok := c.Value.(*ssa.UnOp); ok {
						if g, ok := u.X.(*ssa.Global); ok {
							if f := w.singleFuncInit(g); f != nil {
								callees = append(callees, f)
								continue
							}
						}
					}
					fi.dynamic = true
				}
				for _, a := range c.Args {
					if mc, ok := a.(*ssa.MakeClosure); ok {
						callees = append(callees, mc.Fn.(*ssa.Function))
					}
					if f, ok := a.(*ssa.Function); ok {
						callees = append(callees, f)
					}
				}
			case *ssa.MakeClosure:
				callees = append(callees, x.Fn.(*ssa.Function))
			case *ssa.Defer:
				if cal := x.Common().StaticCallee(); cal != nil {
					callees = append(callees, cal)
				}
			case *ssa.Go:
				if cal := x.Common().StaticCallee(); cal != nil {
					callees = append(callees, cal)
				}
			}
		}
	}
	for _, c := range callees {
		if !inRepo(c) {
			continue
		}
		ci := w.frameOf(c)
		for g := range ci.reads {
			fi.reads[g] = true
		}
		for g := range ci.writes {
			fi.writes[g] = true
		}
		for g := range ci.assigns {
			fi.assigns[g] = true
		}
		if ci.heap {
			fi.heap = true
		}
		if ci.dynamic {
			fi.dynamic = true
		}
		if ci.fs {
			fi.fs = true
		}
	}
	fi.done = true
	return fi
}

func rootParam(v ssa.Value, depth int) (*ssa.Parameter, bool) {
	if depth > 12 {
		return nil, false
	}
	switch x := v.(type) {
	case *ssa.Parameter:
		return x, true
	case *ssa.FieldAddr:
		return rootParam(x.X, depth+1)
	case *ssa.IndexAddr:
		return rootParam(x.X, depth+1)
	}
	return nil, false
}

func recvInRepo(t types.Type) bool {
	return strings.Contains(t.String(), modPath) && !strings.Contains(t.String(), "/languages/")
}

// allStores: every Store whose address is rooted at a global, per global (whole program, repo functions only)
type globalStore struct {
	fn  *ssa.Function
	st  *ssa.Store
	dir bool // direct store to the global itself (not to a field/element)
}

func (w *World) globalStores() map[*ssa.Global][]globalStore {
	if w.gstores != nil {
		return w.gstores
	}
	w.gstores = map[*ssa.Global][]globalStore{}
	w.gaddr = map[*ssa.Global]bool{}
	for _, fn := range w.allRepoFuncs() {
		for _, b := range fn.Blocks {
			for _, in := range b.Instrs {
				switch x := in.(type) {
				case *ssa.Store:
					if g := rootGlobal(x.Addr, 0); g != nil {
						_, dir := x.Addr.(*ssa.Global)
						w.gstores[g] = append(w.gstores[g], globalStore{fn, x, dir})
					}
					if g, ok := x.Val.(*ssa.Global); ok {
						w.gaddr[g] = true
					}
				case *ssa.MapUpdate:
					if g := rootGlobal(x.Map, 0); g != nil {
						w.gstores[g] = append(w.gstores[g], globalStore{fn, nil, false})
					}
				case *ssa.Call:
					for _, a := range x.Common().Args {
						if g, ok := a.(*ssa.Global); ok {
							w.gaddr[g] = true
						}
					}
				case *ssa.MakeInterface:
					if g, ok := x.X.(*ssa.Global); ok {
						w.gaddr[g] = true
					}
				}
			}
		}
	}
	return w.gstores
}

func (w *World) allRepoFuncs() []*ssa.Function {
	if w.repoFuncs != nil {
		return w.repoFuncs
	}
	seen := map[*ssa.Function]bool{}
	var add func(fn *ssa.Function)
	add = func(fn *ssa.Function) {
		if fn == nil || seen[fn] {
			return
		}
		seen[fn] = true
		w.repoFuncs = append(w.repoFuncs, fn)
		for _, a := range fn.AnonFuncs {
			add(a)
		}
	}
	for _, p := range w.Prog.AllPackages() {
		if !strings.HasPrefix(p.Pkg.Path(), modPath) {
			continue
		}
		for _, m := range p.Members {
			switch x := m.(type) {
			case *ssa.Function:
				add(x)
			case *ssa.Type:
				for _, t := range []types.Type{x.Type(), types.NewPointer(x.Type())} {
					ms := w.Prog.MethodSets.MethodSet(t)
					for i := 0; i < ms.Len(); i++ {
						if f := w.Prog.MethodValue(ms.At(i)); f != nil && f.Pkg == p {
							add(f)
						}
					}
				}
			}
		}
		if p.Func("init") != nil {
			add(p.Func("init"))
		}
	}
	return w.repoFuncs
}

// singleFuncInit: a package-level func variable assigned exactly once, in the package initialiser, to a function literal.
func (w *World) singleFuncInit(g *ssa.Global) *ssa.Function {
	sts := w.globalStores()[g]
	if len(sts) != 1 || w.gaddr[g] || sts[0].st == nil || !sts[0].dir {
		return nil
	}
	if sts[0].fn.Name() != "init" {
		return nil
	}
	switch v := sts[0].st.Val.(type) {
	case *ssa.Function:
		return v
	case *ssa.MakeClosure:
		if len(v.Bindings) == 0 {
			return v.Fn.(*ssa.Function)
		}
	}
	return nil
}
