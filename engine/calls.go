package main

import (
	"sort"
	"fmt"
	"go/types"
	"strings"

	"golang.org/x/tools/go/ssa"
)

const inlineMaxInstrs = 400
const inlineMaxDepth = 5

func (e *enc) setResult(x ssa.Value, sig *types.Signature, ts []Term) {
	fr := e.fr
	switch sig.Results().Len() {
	case 0:
	case 1:
		fr.val[x] = ts[0]
	default:
		fr.tuples[x] = ts
	}
}

func (e *enc) freshResults(x ssa.Value, sig *types.Signature, prefix string) []Term {
	var ts []Term
	for i := 0; i < sig.Results().Len(); i++ {
		ty := sig.Results().At(i).Type()
		t := e.fresh(prefix, e.so.of(ty))
		e.assumeWF(t, ty, 2)
		e.assumeAllocated(t, ty)
		ts = append(ts, t)
	}
	e.setResult(x, sig, ts)
	return ts
}

func (e *enc) call(x *ssa.Call) {
	fr := e.fr
	c := x.Common()
	if bi, ok := c.Value.(*ssa.Builtin); ok {
		e.builtin(x, bi)
		return
	}
	if c.IsInvoke() {
		e.invoke(x)
		return
	}
	callee := c.StaticCallee()
	var bindings []ssa.Value
	if callee == nil {
		switch v := c.Value.(type) {
		case *ssa.MakeClosure:
			callee = v.Fn.(*ssa.Function)
			bindings = v.Bindings
		case *ssa.UnOp:
			if g, ok := v.X.(*ssa.Global); ok {
				callee = e.w.singleFuncInit(g)
				if callee != nil {
					e.assumps[fmt.Sprintf("package-level func variable %s.%s is assigned only by its initialiser (checked on the current tree)", g.Pkg.Pkg.Name(), g.Name())] = true
				}
			}
		}
	}
	if callee == nil {
		// dynamic call: uninterpreted pure function of the callee value and arguments
		var args, sorts []string
		args = append(args, e.value(c.Value))
		sorts = append(sorts, "Int")
		for _, a := range c.Args {
			args = append(args, e.value(a))
			sorts = append(sorts, e.so.of(a.Type()))
		}
		sig := c.Signature()
		var ts []Term
		for i := 0; i < sig.Results().Len(); i++ {
			rs := e.so.of(sig.Results().At(i).Type())
			f := e.uf(fmt.Sprintf("dyn_%s_%d", clean(strings.Join(sorts, "_")+"_"+rs), i), sorts, rs)
			ts = append(ts, fmt.Sprintf("(%s %s)", f, strings.Join(args, " ")))
		}
		e.setResult(x, sig, ts)
		e.assumps["calls through function values are deterministic and write no package-level state"] = true
		// ground instances of the preconditions stated about this function parameter (requires forall s :: {f(s)} P(f(s)))
		if p, ok := c.Value.(*ssa.Parameter); ok && fr.contract != nil {
			for _, rq := range fr.contract.Requires {
				q, ok := rq.E.(*SQuant)
				if !ok || !q.Forall || len(q.Vars) != len(c.Args) || len(q.Trig) != 1 || len(q.Trig[0]) != 1 {
					continue
				}
				tc, ok := q.Trig[0][0].(*SCall)
				if !ok || tc.Fun != p.Name() {
					continue
				}
				env := e.fnEnv(fr, e.mem)
				env.oldMem = nil
				for i, v := range q.Vars {
					env.vars[v.Name] = e.mkT(e.value(c.Args[i]), c.Args[i].Type())
				}
				if g, err := e.specBool(env, q.Body); err == nil {
					e.assumeAt(g)
				}
			}
		}
		return
	}
	var args []Term
	for _, a := range c.Args {
		args = append(args, e.value(a))
	}
	name := callee.String()
	if h, ok := externals[name]; ok {
		e.extUsed[name] = true
		if h(e, x, args) {
			return
		}
	}
	if isNodeMethod(callee) {
		e.nodeCall(x, callee, args)
		return
	}
	if !inRepo(callee) || callee.Blocks == nil {
		// external function without a contract: deterministic, side-effect free on tracked memory (assumption), result unconstrained by anything but determinism
		e.extUsed[name+" (uninterpreted)"] = true
		// what a pointer argument (also one boxed into an interface) points to may be overwritten
		for _, a := range c.Args {
			if mi, ok := a.(*ssa.MakeInterface); ok {
				a = mi.X
			}
			if _, isPtr := a.Type().Underlying().(*types.Pointer); isPtr && !isNodeType(a.Type()) {
				if l, ok := fr.loc[a]; ok {
					e.havocLoc(l)
				}
			}
		}
		// a repository closure handed to an external function may be called by it any number of times: whatever the
		// closure can write (captured variables, the maps and objects they hold, package state) is unknown afterwards
		for _, a := range c.Args {
			v := a
			if ct, ok := v.(*ssa.ChangeType); ok {
				v = ct.X
			}
			if mc, ok := v.(*ssa.MakeClosure); ok {
				e.havocClosureEffects(mc)
			}
		}
		e.summarise(x, callee, args)
		return
	}
	key := callee.Pkg.Pkg.Path() + "." + funcKey(callee)
	var inlineCt *Contract
	if ct, ok := e.ss.Contracts[key]; ok {
		if !ct.Inline {
			e.modularCall(x, callee, ct, args)
			return
		}
		inlineCt = ct
	}
	// inline
	rec := false
	for _, f := range e.stack {
		if f == callee {
			rec = true
		}
	}
	n := 0
	for _, b := range callee.Blocks {
		n += len(b.Instrs)
	}
	if !rec && fr.depth < inlineMaxDepth && n <= inlineMaxInstrs {
		e.inlineCt = inlineCt
		e.inline(x, callee, c.Args, args, bindings)
		return
	}
	e.havocCall(x, callee, args)
}

// summarise: uninterpreted function of the arguments (pure external)
func (e *enc) summarise(x *ssa.Call, callee *ssa.Function, args []Term) {
	c := x.Common()
	var as []string
	for _, a := range c.Args {
		as = append(as, e.so.of(a.Type()))
	}
	sig := callee.Signature
	var ts []Term
	for i := 0; i < sig.Results().Len(); i++ {
		rs := e.so.of(sig.Results().At(i).Type())
		f := e.uf(fmt.Sprintf("f_%s_%d", clean(callee.String()), i), as, rs)
		t := f
		if len(args) > 0 {
			t = fmt.Sprintf("(%s %s)", f, strings.Join(args, " "))
		}
		t = e.define("call_"+clean(callee.Name()), rs, t)
		for _, cnd := range e.wfConds(t, sig.Results().At(i).Type(), 1) {
			e.assume(cnd)
		}
		ts = append(ts, t)
	}
	e.setResult(x, sig, ts)
}

// havocCall: repo function neither under contract nor inlinable: havoc its computed frame, result unconstrained
func (e *enc) havocCall(x *ssa.Call, callee *ssa.Function, args []Term) {
	e.havoced[fnFull(callee)] = true
	fi := e.w.frameOf(callee)
	if fi.fs {
		e.havocKey(e.fsMem())
	}
	for g := range fi.writes {
		e.havocKey(e.ensureGlobal(g))
	}
	if fi.heap {
		for _, k := range sortedKeys(e.mem) {
			if strings.HasPrefix(k, "H:") {
				e.havocKey(k)
			}
		}
		for _, a := range x.Common().Args {
			if l, ok := e.fr.loc[a]; ok {
				e.havocLoc(l)
			}
		}
	}
	e.freshResults(x, callee.Signature, "hres_"+callee.Name())
}

func (e *enc) havocLoc(l *Loc) {
	if strings.HasPrefix(l.base, "H:") {
		if ty, ok := e.memTy[l.base]; ok && e.readOnlyExt(ty) {
			return // go/ast nodes are read-only data
		}
	}
	if l.ty == nil {
		e.havocKey(l.base)
		return
	}
	v := e.fresh("hvl", l.sort)
	e.assumeWF(v, l.ty, 2)
	e.write(l, v)
}

func (e *enc) inline(x *ssa.Call, callee *ssa.Function, argVals []ssa.Value, args []Term, bindings []ssa.Value) {
	fr := e.fr
	e.inlined[fnFull(callee)] = true
	fr2 := newFrame(callee, fr)
	fr2.contract = e.inlineCt // loop invariants of a contract marked `inline`
	e.inlineCt = nil
	fr2.prefix = fr.prefix + "inl@" + fnFull(callee) + "/"
	for i, p := range callee.Params {
		if i >= len(args) {
			break
		}
		fr2.val[p] = args[i]
		if l, ok := fr.loc[argVals[i]]; ok {
			fr2.loc[p] = l
		} else if g, ok := argVals[i].(*ssa.Global); ok {
			fr2.loc[p] = e.locOf(g) // &globalVar passed as an argument
		}
		if l, ok := fr.prov[argVals[i]]; ok {
			fr2.prov[p] = l
		}
	}
	for i, fv := range callee.FreeVars {
		if i < len(bindings) {
			fr2.val[fv] = e.value(bindings[i])
			if l, ok := fr.loc[bindings[i]]; ok {
				fr2.loc[fv] = l
			}
		}
	}
	e.stack = append(e.stack, callee)
	e.run(fr2, fr.cur)
	e.stack = e.stack[:len(e.stack)-1]
	e.fr = fr
	// pointer knowledge after the call: what all return paths agree on
	if len(fr2.returns) > 0 {
		e.ptrIn = map[string]*Loc{}
		for k, v := range fr2.returns[0].ptr {
			e.ptrIn[k] = v
		}
		for _, r := range fr2.returns[1:] {
			for k, v := range e.ptrIn {
				if r.ptr[k] != v {
					delete(e.ptrIn, k)
				}
			}
		}
	}
	if len(fr2.returns) == 0 {
		// callee never returns (panics / exits on every path)
		fr.cur = "false"
		e.freshResults(x, callee.Signature, "nores")
		return
	}
	var ats []Term
	var mems []map[string]Term
	for _, r := range fr2.returns {
		ats = append(ats, r.at)
		mems = append(mems, r.mem)
	}
	e.mem = e.mergeMem(mems, ats)
	// drop the callee's private cells from the caller's view? they are harmless (unique keys)
	nres := callee.Signature.Results().Len()
	var ts []Term
	for j := 0; j < nres; j++ {
		var t Term
		for i := len(fr2.returns) - 1; i >= 0; i-- {
			if t == "" {
				t = fr2.returns[i].vals[j]
			} else {
				t = fmt.Sprintf("(ite %s %s %s)", fr2.returns[i].at, fr2.returns[i].vals[j], t)
			}
		}
		ts = append(ts, e.define("ret_"+callee.Name(), e.so.of(callee.Signature.Results().At(j).Type()), t))
	}
	e.setResult(x, callee.Signature, ts)
	// a returned map that is the same map on every return path (typically the parameter handed back)
	for j := 0; j < nres; j++ {
		var p0 *Loc
		same := true
		for _, r := range fr2.returns {
			p, ok := r.provs[j]
			if !ok || (p0 != nil && locKey(p0) != locKey(p)) {
				same = false
				break
			}
			p0 = p
		}
		if same && p0 != nil {
			if nres == 1 {
				fr.prov[x] = p0
			} else {
				if fr.tupleProvIdx == nil {
					fr.tupleProvIdx = map[ssa.Value]map[int]*Loc{}
				}
				if fr.tupleProvIdx[x] == nil {
					fr.tupleProvIdx[x] = map[int]*Loc{}
				}
				fr.tupleProvIdx[x][j] = p0
			}
		}
	}
	if len(fr2.returns) == 1 && fr2.retLocs != nil {
		if nres == 1 {
			if l := fr2.retLocs[0]; l != nil {
				fr.loc[x] = l
			}
		} else {
			ls := make([]*Loc, nres)
			for i := range ls {
				ls[i] = fr2.retLocs[i]
			}
			if fr.tupleLocs == nil {
				fr.tupleLocs = map[ssa.Value][]*Loc{}
			}
			fr.tupleLocs[x] = ls
		}
	}
	fr.cur = e.define("after_"+callee.Name(), "Bool", mkOr(ats))
}

// callEnv builds the spec environment of a callee contract at a call site.
func (e *enc) callEnv(callee *ssa.Function, argVals []ssa.Value, args []Term) *specEnv {
	fr := e.fr
	env := &specEnv{e: e, fr: fr, pkg: callee.Pkg.Pkg, vars: map[string]tval{}, ptrLoc: map[string]*Loc{}, mem: e.mem, varLoc: map[string]*Loc{}, structArg: map[string]*Loc{}}
	for i, p := range callee.Params {
		if i >= len(args) {
			break
		}
		env.vars[p.Name()] = e.mkT(args[i], p.Type())
		if argVals != nil {
			if l, ok := fr.loc[argVals[i]]; ok {
				env.ptrLoc[p.Name()] = l
			} else if g, ok := argVals[i].(*ssa.Global); ok {
				env.ptrLoc[p.Name()] = e.locOf(g) // &globalVar passed as an argument
			}
			if _, isMap := p.Type().Underlying().(*types.Map); isMap {
				if l, ok := fr.prov[argVals[i]]; ok {
					env.varLoc[p.Name()] = l
				}
			}
			if _, isStruct := p.Type().Underlying().(*types.Struct); isStruct && !isNodeType(p.Type()) {
				if l, ok := fr.prov[argVals[i]]; ok && l.ty != nil {
					env.structArg[p.Name()] = l
				}
			}
		}
	}
	res := callee.Signature.Results()
	for i := 0; i < res.Len(); i++ {
		env.resNames = append(env.resNames, res.At(i).Name())
	}
	return env
}

func (e *enc) modularCall(x *ssa.Call, callee *ssa.Function, ct *Contract, args []Term) {
	fr := e.fr
	c := x.Common()
	e.ctrUsed[fnFull(callee)] = true
	if ct.Trusted != "" {
		e.trusted[fnFull(callee)] = ct.Trusted
	}
	env := e.callEnv(callee, c.Args, args)
	for _, rq := range ct.Requires {
		g, err := e.specBool(env, rq.E)
		if err != nil {
			e.contractError(fr, fmt.Sprintf("requires of %s: %v", fnFull(callee), err))
			continue
		}
		e.oblige("pre@"+fnFull(callee), g, x.Pos(), rq.Text)
		e.assumeAt(g)
	}
	// state invariants of the callee's package: required at the call, re-established by the callee (proved in its own verification)
	var calleeInvs []Clause
	if callee.Pkg != nil && !ct.Establishes {
		calleeInvs = e.ss.Invariants[callee.Pkg.Pkg.Path()]
	}
	for _, iv := range calleeInvs {
		g, err := e.specBool(stateOnly(env), iv.E)
		if err != nil {
			continue
		}
		e.oblige("pre@"+fnFull(callee), g, x.Pos(), "invariant: "+iv.Text)
		e.assumeAt(g)
	}
	pre := copyMem(e.mem)
	// the callee may allocate: allocation sets grow monotonically
	for _, k := range sortedKeys(e.mem) {
		if strings.HasPrefix(k, "AL:") {
			old := e.mem[k]
			e.mem[k] = e.fresh("al_c", "(Array Int Bool)")
			e.assume(fmt.Sprintf("(forall ((x Int)) (! (=> (select %s x) (select %s x)) :pattern ((select %s x))))", old, e.mem[k], old))
		}
	}
	// recursion: decreases at the call
	if ct.Decreases != nil && callee == e.root && e.rootDec != "" {
		m, _, err := e.specTerm(env, ct.Decreases.E)
		if err == nil {
			e.oblige("dec@"+fnFull(callee), fmt.Sprintf("(and (>= %s 0) (< %s %s))", e.rootDec, m, e.rootDec), x.Pos(), ct.Decreases.Text)
		}
	}
	// havoc the declared frame
	if ct.ModAll {
		fi := e.w.frameOf(callee)
		for g := range fi.writes {
			e.havocKey(e.ensureGlobal(g))
		}
		for _, k := range sortedKeys(e.mem) {
			if strings.HasPrefix(k, "H:") {
				e.havocKey(k)
			}
		}
		for _, a := range c.Args {
			if l, ok := fr.loc[a]; ok {
				e.havocLoc(l)
			}
		}
	}
	if ct.ModFS {
		e.havocKey(e.fsMem())
	}
	for _, m := range ct.Modifies {
		if err := e.havocSpecLoc(env, m.E); err != nil {
			e.contractError(fr, fmt.Sprintf("modifies of %s: %v", fnFull(callee), err))
		}
	}
	var ts []Term
	if ct.Pure {
		// pure function: its results are functions of the arguments (determinism summary); the function's own
		// verification checks that it writes nothing
		ts = e.pureApp(callee, args)
		e.setResult(x, callee.Signature, ts)
	} else {
		ts = e.freshResults(x, callee.Signature, "res_"+callee.Name())
	}
	env2 := e.callEnv(callee, c.Args, args)
	env2.mem = e.mem
	env2.oldMem = pre
	for _, m := range ct.Modifies {
		if sf, ok := m.E.(*SField); ok {
			if id, ok := sf.X.(*SIdent); ok {
				if base, ok := env2.structArg[id.Name]; ok {
					env2.varLoc[id.Name] = base
				}
			}
		}
	}
	for i, t := range ts {
		env2.results = append(env2.results, e.mkT(t, callee.Signature.Results().At(i).Type()))
	}
	for _, en := range ct.Ensures {
		g, err := e.specBool(env2, en.E)
		if err != nil {
			e.contractError(fr, fmt.Sprintf("ensures of %s: %v", fnFull(callee), err))
			continue
		}
		e.assumeAt(g)
	}
	// the package invariants hold again after the call (also for constructors, which establish them)
	if callee.Pkg != nil {
		for _, iv := range e.ss.Invariants[callee.Pkg.Pkg.Path()] {
			if g, err := e.specBool(stateOnly(env2), iv.E); err == nil {
				e.assumeAt(g)
			}
		}
	}
}

// havocSpecLoc: havoc the location named by a modifies clause (*p, a package-level variable, or p.Field / *p.Field)
func (e *enc) havocSpecLoc(env *specEnv, x SExpr) error {
	switch n := x.(type) {
	case *SUnary:
		if n.Op == "*" {
			if id, ok := n.X.(*SIdent); ok {
				if l, ok := env.ptrLoc[id.Name]; ok {
					e.havocLoc(l)
					return nil
				}
				v, err := e.specX(env, n.X)
				if err != nil {
					return err
				}
				pt, ok := v.ty.Underlying().(*types.Pointer)
				if !ok {
					return fmt.Errorf("modifies *%s: not a pointer", id.Name)
				}
				key := e.heapKey(pt.Elem())
				l := &Loc{base: key, ref: v.t, sort: e.so.of(pt.Elem()), ty: pt.Elem()}
				e.havocLoc(l)
				return nil
			}
			// *expr for any pointer-valued expression (e.g. *m[k]): the object it points to (evaluated in the pre-state)
			v, err := e.specX(env, n.X)
			if err != nil {
				return err
			}
			if v.ty != nil {
				if pt, ok := v.ty.Underlying().(*types.Pointer); ok {
					key := e.heapKey(pt.Elem())
					ref := e.define("modref", "Int", v.t)
					if _, isStruct := pt.Elem().Underlying().(*types.Struct); isStruct {
						// nothing is written through a nil pointer: the heap changes at ref only when ref is non-nil
						oldHeap := e.mem[key]
						l := &Loc{base: key, ref: ref, sort: e.so.of(pt.Elem()), ty: pt.Elem()}
						e.havocLoc(l)
						e.mem[key] = e.define("modheap", e.memSort[key], fmt.Sprintf("(ite (= %s 0) %s %s)", ref, oldHeap, e.mem[key]))
						return nil
					}
				}
			}
		}
	case *SIdent:
		if l, ok := env.varLoc[n.Name]; ok {
			old := e.readIn(e.mem, l)
			e.havocLoc(l)
			// a map stays non-nil when it was non-nil (callees update, they cannot reassign the caller's map)
			if strings.HasPrefix(l.sort, "Map_") {
				e.assume(fmt.Sprintf("(= (nil_%s %s) (nil_%s %s))", l.sort, e.read(l), l.sort, old))
			}
			return nil
		}
		if env.pkg != nil {
			if obj, ok := env.pkg.Scope().Lookup(n.Name).(*types.Var); ok {
				_ = obj
				sp := e.w.Prog.Package(env.pkg)
				if g, ok := sp.Members[n.Name].(*ssa.Global); ok {
					e.havocKey(e.ensureGlobal(g))
					return nil
				}
			}
		}
	case *SField:
		if id, ok := n.X.(*SIdent); ok {
			if base, ok := env.structArg[id.Name]; ok {
				// a map field of a struct passed by value: the caller's map is updated
				st, isStruct := base.ty.Underlying().(*types.Struct)
				if isStruct {
					ssort := e.so.of(base.ty)
					for i := 0; i < st.NumFields(); i++ {
						if st.Field(i).Name() == n.Name {
							fl := &Loc{base: base.base, ref: base.ref, sort: e.so.fields[ssort][i].sort, ty: st.Field(i).Type()}
							fl.path = append(append([]step{}, base.path...), step{kind: "field", field: ssort + "." + e.so.fields[ssort][i].name, sort: ssort, fi: i})
							old := e.read(fl)
							e.havocLoc(fl)
							if strings.HasPrefix(fl.sort, "Map_") {
								e.assume(fmt.Sprintf("(= (nil_%s %s) (nil_%s %s))", fl.sort, e.read(fl), fl.sort, old))
							}
							// from now on the parameter denotes the caller's (updated) struct
							env.varLoc[id.Name] = base
							return nil
						}
					}
				}
			}
			if p := e.findPkg(env.pkg, id.Name); p != nil {
				sp := e.w.Prog.Package(p)
				if sp != nil {
					if g, ok := sp.Members[n.Name].(*ssa.Global); ok {
						e.havocKey(e.ensureGlobal(g))
						return nil
					}
				}
			}
		}
	}
	return fmt.Errorf("unsupported modifies target")
}

// ---------- builtins

func (e *enc) builtin(x *ssa.Call, bi *ssa.Builtin) {
	fr := e.fr
	c := x.Common()
	var args []Term
	for _, a := range c.Args {
		args = append(args, e.value(a))
	}
	switch bi.Name() {
	case "len", "cap":
		s := e.so.of(c.Args[0].Type())
		switch c.Args[0].Type().Underlying().(type) {
		case *types.Basic:
			fr.val[x] = fmt.Sprintf("(str.len %s)", args[0])
		case *types.Slice:
			e.useSlice(args[0], s)
			fr.val[x] = fmt.Sprintf("(len_%s %s)", s, args[0])
			if bi.Name() == "cap" {
				fr.val[x] = e.fresh("cap", "Int")
				e.assume(fmt.Sprintf("(>= %s (len_%s %s))", fr.val[x], s, args[0]))
			}
		case *types.Map:
			m := args[0]
			if p, ok := fr.prov[c.Args[0]]; ok {
				m = e.read(p)
			}
			fr.val[x] = fmt.Sprintf("(Card_%s (dom_%s %s))", s, s, m)
		case *types.Pointer:
			if arr, ok := c.Args[0].Type().Underlying().(*types.Pointer).Elem().Underlying().(*types.Array); ok {
				fr.val[x] = fmt.Sprint(arr.Len())
			}
		default:
			fr.val[x] = e.fresh("len", "Int")
		}
		return
	case "append":
		ss := e.so.of(x.Type())
		if len(c.Args) == 1 {
			fr.val[x] = args[0]
			return
		}
		e.useSlice(args[0], ss)
		if e.so.of(c.Args[1].Type()) == ss {
			e.useSlice(args[1], ss)
		}
		// single element varargs pattern: second arg is a slice of a fresh [1]T cell
		if sl, ok := c.Args[1].(*ssa.Slice); ok {
			if pt, ok := sl.X.Type().Underlying().(*types.Pointer); ok {
				if arr, ok := pt.Elem().Underlying().(*types.Array); ok {
					n := int(arr.Len())
					if n <= 4 {
						t := fmt.Sprintf("(arr_%s %s)", ss, args[0])
						for i := 0; i < n; i++ {
							elem := fmt.Sprintf("(select (arr_%s %s) %d)", ss, args[1], i)
							t = fmt.Sprintf("(store %s (+ (len_%s %s) %d) %s)", t, ss, args[0], i, elem)
						}
						fr.val[x] = e.define("app_"+x.Name(), ss, fmt.Sprintf("(mk_%s %s (+ (len_%s %s) %d) false)", ss, t, ss, args[0], n))
						return
					}
				}
			}
		}
		if e.so.of(c.Args[1].Type()) == "String" {
			// append([]byte, string...)
			r := e.fresh("app_"+x.Name(), ss)
			e.assume(fmt.Sprintf("(= (len_%s %s) (+ (len_%s %s) (str.len %s)))", ss, r, ss, args[0], args[1]))
			fr.val[x] = r
			return
		}
		r := e.fresh("app_"+x.Name(), ss)
		e.assume(fmt.Sprintf("(and (= (len_%s %s) (+ (len_%s %s) (len_%s %s))) (= (nil_%s %s) (and (nil_%s %s) (= (len_%s %s) 0))))", ss, r, ss, args[0], ss, args[1], ss, r, ss, args[0], ss, args[1]))
		e.assume(fmt.Sprintf("(forall ((i Int)) (! (=> (and (<= 0 i) (< i (len_%s %s))) (= (select (arr_%s %s) i) (select (arr_%s %s) i))) :pattern ((select (arr_%s %s) i))))", ss, args[0], ss, r, ss, args[0], ss, r))
		e.assume(fmt.Sprintf("(forall ((i Int)) (! (=> (and (<= 0 i) (< i (len_%s %s))) (= (select (arr_%s %s) (+ i (len_%s %s))) (select (arr_%s %s) i))) :pattern ((select (arr_%s %s) i))))", ss, args[1], ss, r, ss, args[0], ss, args[1], ss, args[1]))
		// and the other direction, triggered on the result
		e.assume(fmt.Sprintf("(forall ((i Int)) (! (=> (and (<= (len_%s %s) i) (< i (len_%s %s))) (= (select (arr_%s %s) i) (select (arr_%s %s) (- i (len_%s %s))))) :pattern ((select (arr_%s %s) i))))", ss, args[0], ss, r, ss, r, ss, args[1], ss, args[0], ss, r))
		fr.val[x] = r
		return
	case "delete":
		m := args[0]
		ms := e.so.of(c.Args[0].Type())
		if p, ok := fr.prov[c.Args[0]]; ok {
			m = e.read(p)
			mt := c.Args[0].Type().Underlying().(*types.Map)
			nv := fmt.Sprintf("(mk_%s (store (dom_%s %s) %s false) (store (val_%s %s) %s %s) (nil_%s %s))", ms, ms, m, args[1], ms, m, args[1], e.zero(mt.Elem()), ms, m)
			e.write(p, nv)
			fr.val[c.Args[0]] = e.read(p)
		} else {
			e.outOfSubset = append(e.outOfSubset, "delete on a map value of unknown origin")
		}
		return
	case "copy":
		e.outOfSubset = append(e.outOfSubset, "builtin copy")
		fr.val[x] = e.fresh("copy", "Int")
		return
	case "print", "println":
		return
	case "min", "max":
		if len(args) == 2 {
			op := "<="
			if bi.Name() == "max" {
				op = ">="
			}
			fr.val[x] = fmt.Sprintf("(ite (%s %s %s) %s %s)", op, args[0], args[1], args[0], args[1])
			return
		}
	}
	e.note("builtin %s not modelled", bi.Name())
	if x.Type() != nil {
		if _, ok := x.Type().(*types.Tuple); !ok {
			fr.val[x] = e.fresh("bi", e.so.of(x.Type()))
		}
	}
}

// ---------- interface method calls

func (e *enc) invoke(x *ssa.Call) {
	fr := e.fr
	c := x.Common()
	recv := e.value(c.Value)
	if isNodeType(c.Value.Type()) {
		e.nodeInvoke(x, recv)
		return
	}
	e.safety("nil", fmt.Sprintf("(not (= %s 0))", recv), x.Pos(), x.String())
	if recvInRepo(c.Value.Type()) && e.dispatch(x, recv) {
		return
	}
	// reflect.TypeOf(v).String(): the name of v's dynamic type
	if tc, ok := c.Value.(*ssa.Call); ok && c.Method.Name() == "String" {
		if cal := tc.Common().StaticCallee(); cal != nil && cal.String() == "reflect.TypeOf" {
			if name, ok := e.typeOfStatic[tc]; ok {
				e.fr.val[x] = smtStr(name)
				return
			}
			if src, ok := e.typeOfArg[tc]; ok {
				if len(tc.Call.Args) == 1 && isGoAst(typeOfArgStatic(tc.Call.Args[0])) {
					e.fr.val[x] = e.define("tyname", "String", e.goTypeNameOf(src))
					return
				}
				e.fr.val[x] = e.define("tyname", "String", e.typeNameOf(src))
				return
			}
		}
	}
	// unknown interface method: deterministic function of receiver and arguments (no tracked side effects: assumption)
	var args, sorts []string
	args = append(args, recv)
	sorts = append(sorts, "Int")
	for _, a := range c.Args {
		args = append(args, e.value(a))
		sorts = append(sorts, e.so.of(a.Type()))
	}
	sig := c.Signature()
	var ts []Term
	for i := 0; i < sig.Results().Len(); i++ {
		rs := e.so.of(sig.Results().At(i).Type())
		f := e.uf(fmt.Sprintf("im_%s_%s_%d", clean(c.Method.Name()), clean(strings.Join(sorts, "_")), i), sorts, rs)
		ts = append(ts, fmt.Sprintf("(%s %s)", f, strings.Join(args, " ")))
	}
	e.setResult(x, sig, ts)
	if recvInRepo(c.Value.Type()) {
		e.outOfSubset = append(e.outOfSubset, "dynamic dispatch on a repository interface: "+x.String())
	}
	e.assumps["interface method calls on external objects are deterministic and write no tracked memory"] = true
	_ = fr
}

// pureApp: application terms of a pure repo function (one uninterpreted function per result)
func (e *enc) pureApp(callee *ssa.Function, args []Term) []Term {
	var sorts []string
	for _, p := range callee.Params {
		sorts = append(sorts, e.so.of(p.Type()))
	}
	var ts []Term
	sig := callee.Signature
	for i := 0; i < sig.Results().Len(); i++ {
		rty := sig.Results().At(i).Type()
		f := e.uf(fmt.Sprintf("pure_%s_%d", clean(fnFull(callee)), i), sorts, e.so.of(rty))
		t := f
		if len(args) > 0 {
			t = fmt.Sprintf("(%s %s)", f, strings.Join(args, " "))
		}
		ts = append(ts, t)
		if _, isSlice := rty.Underlying().(*types.Slice); isSlice && !boundVarRe.MatchString(t) {
			e.useSlice(t, e.so.of(rty))
		}
	}
	return ts
}

// dispatch: a method call through an interface declared in the repository, resolved over the repository types that
// implement it (closed world: only those types are ever stored in such an interface). Each implementation is inlined
// under the condition that the receiver has that dynamic type; memory and results are merged.
func (e *enc) dispatch(x *ssa.Call, recv Term) bool {
	fr := e.fr
	c := x.Common()
	iface, ok := c.Value.Type().Underlying().(*types.Interface)
	if !ok || fr.depth >= inlineMaxDepth {
		return false
	}
	type impl struct {
		ty types.Type
		fn *ssa.Function
	}
	var impls []impl
	var names []string
	byName := map[string]impl{}
	for path, p := range e.w.ByPath {
		if !strings.HasPrefix(path, modPath) || strings.Contains(path, "/languages/") || p.Types == nil {
			continue
		}
		sc := p.Types.Scope()
		for _, n := range sc.Names() {
			tn, ok := sc.Lookup(n).(*types.TypeName)
			if !ok || tn.IsAlias() {
				continue
			}
			if _, isIface := tn.Type().Underlying().(*types.Interface); isIface {
				continue
			}
			for _, t := range []types.Type{tn.Type(), types.NewPointer(tn.Type())} {
				if !types.Implements(t, iface) {
					continue
				}
				sel := e.w.Prog.MethodSets.MethodSet(t).Lookup(c.Method.Pkg(), c.Method.Name())
				if sel == nil {
					continue
				}
				fn := e.w.Prog.MethodValue(sel)
				if fn == nil || fn.Blocks == nil {
					continue
				}
				k := t.String()
				if _, dup := byName[k]; !dup {
					byName[k] = impl{t, fn}
					names = append(names, k)
				}
			}
		}
	}
	sort.Strings(names)
	for _, k := range names {
		impls = append(impls, byName[k])
	}
	if len(impls) == 0 || len(impls) > 12 {
		return false
	}
	for _, f := range e.stack {
		for _, im := range impls {
			if f == im.fn {
				return false // recursion through the interface
			}
		}
	}
	e.assumps["closed world: an interface declared in the repository only ever holds values of the repository types that implement it"] = true
	tag := e.uf("dyntag", []string{"Int"}, "Int")
	var args []Term
	for _, a := range c.Args {
		args = append(args, e.value(a))
	}
	cur0, mem0, ptr0 := fr.cur, copyMem(e.mem), e.ptrIn
	var ats []Term
	var mems []map[string]Term
	var vals [][]Term
	var conds []Term
	sig := c.Signature()
	for _, im := range impls {
		s := e.so.of(im.ty)
		unbox := e.uf("unbox_"+clean(s), []string{"Int"}, s)
		cond := fmt.Sprintf("(= (%s %s) %d)", tag, recv, e.typeTag(im.ty))
		conds = append(conds, cond)
		e.mem = copyMem(mem0)
		e.ptrIn = nil
		fr.cur = e.define("disp_"+clean(im.fn.Name()), "Bool", fmt.Sprintf("(and %s %s)", cur0, cond))
		// the wrapper synthesised for promoted / value methods has the receiver as its first parameter
		callee := im.fn
		recvArg := fmt.Sprintf("(%s %s)", unbox, recv)
		argVals := make([]ssa.Value, len(callee.Params))
		for i := 1; i < len(argVals) && i-1 < len(c.Args); i++ {
			argVals[i] = c.Args[i-1]
		}
		delete(fr.val, x)
		delete(fr.tuples, x)
		e.inline(x, callee, argVals, append([]Term{recvArg}, args...), nil)
		ats = append(ats, fr.cur)
		mems = append(mems, copyMem(e.mem))
		switch sig.Results().Len() {
		case 0:
			vals = append(vals, nil)
		case 1:
			vals = append(vals, []Term{fr.val[x]})
		default:
			vals = append(vals, fr.tuples[x])
		}
	}
	e.ptrIn = ptr0
	for k := range e.ptrIn {
		delete(e.ptrIn, k) // pointer knowledge is not merged across the implementations
	}
	e.mem = e.mergeMem(mems, ats)
	fr.cur = cur0
	e.assumeAt(mkOr(conds))
	fr.cur = e.define("after_dispatch", "Bool", mkOr(ats))
	n := sig.Results().Len()
	var ts []Term
	for j := 0; j < n; j++ {
		var t Term
		for i := len(vals) - 1; i >= 0; i-- {
			if vals[i] == nil || j >= len(vals[i]) {
				continue
			}
			if t == "" {
				t = vals[i][j]
			} else {
				t = fmt.Sprintf("(ite %s %s %s)", ats[i], vals[i][j], t)
			}
		}
		if t == "" {
			t = e.fresh("dispres", e.so.of(sig.Results().At(j).Type()))
		}
		ts = append(ts, e.define("disp_res", e.so.of(sig.Results().At(j).Type()), t))
	}
	delete(fr.val, x)
	delete(fr.tuples, x)
	e.setResult(x, sig, ts)
	return true
}

// typeOfArgStatic: the static type of the value handed to reflect.TypeOf (looking through the conversion to `any`)
func typeOfArgStatic(v ssa.Value) types.Type {
	for d := 0; d < 4; d++ {
		switch x := v.(type) {
		case *ssa.ChangeInterface:
			v = x.X
			continue
		case *ssa.MakeInterface:
			v = x.X
			continue
		}
		break
	}
	return v.Type()
}

// goTypeNameOf: reflect.TypeOf(v).String() for a go/ast node held in an interface: "*ast.<Type>"
func (e *enc) goTypeNameOf(v Term) Term {
	f := e.uf("GoTypeNameF", []string{"Int"}, "String")
	g := e.uf("TagOfGoNameF", []string{"String"}, "Int")
	tag := e.uf("dyntag", []string{"Int"}, "Int")
	e.once("gotypename#ax", func() {
		e.decls = append(e.decls, fmt.Sprintf("(assert (forall ((k Int)) (! (= (%s (%s k)) k) :pattern ((%s k)))))", g, f, f))
		e.assumps["reflect.TypeOf(node).String() is \"*ast.<Type>\" for go/ast nodes; distinct types have distinct names"] = true
		if p := e.w.ByPath["go/ast"]; p != nil && p.Types != nil {
			sc := p.Types.Scope()
			for _, n := range sc.Names() {
				tn, ok := sc.Lookup(n).(*types.TypeName)
				if !ok {
					continue
				}
				if _, isStruct := tn.Type().Underlying().(*types.Struct); !isStruct {
					continue
				}
				e.decls = append(e.decls, fmt.Sprintf("(assert (= (%s %d) \"*ast.%s\"))", f, e.typeTag(types.NewPointer(tn.Type())), n))
			}
		}
	})
	return fmt.Sprintf("(%s (%s %s))", f, tag, v)
}

// havocClosureEffects: the state a closure may write when an external function calls it. A closure that writes nothing
// but its own locals (a comparison function, a key function) changes nothing.
func (e *enc) havocClosureEffects(mc *ssa.MakeClosure) {
	fn, ok := mc.Fn.(*ssa.Function)
	if !ok {
		return
	}
	fr := e.fr
	writesCaptured := map[int]bool{}
	callsOut := false
	var scan func(f *ssa.Function, depth int)
	scan = func(f *ssa.Function, depth int) {
		for _, b := range f.Blocks {
			for _, in := range b.Instrs {
				switch x := in.(type) {
				case *ssa.Store:
					root := x.Addr
					for d := 0; d < 8; d++ {
						switch y := root.(type) {
						case *ssa.FieldAddr:
							root = y.X
							continue
						case *ssa.IndexAddr:
							root = y.X
							continue
						}
						break
					}
					if fv, ok := root.(*ssa.FreeVar); ok && f == fn {
						for i, v := range fn.FreeVars {
							if v == fv {
								writesCaptured[i] = true
							}
						}
					} else if _, local := root.(*ssa.Alloc); !local {
						callsOut = true // a store through some other pointer (loaded from a captured variable, a map entry, ...)
					}
				case *ssa.MapUpdate:
					callsOut = true
				case *ssa.Call:
					if _, isBuiltin := x.Call.Value.(*ssa.Builtin); !isBuiltin {
						callsOut = true
					}
				case *ssa.MakeClosure:
					callsOut = true
				}
			}
		}
	}
	scan(fn, 0)
	if !callsOut && len(writesCaptured) == 0 {
		return
	}
	// the closure's `preserves` clauses: proved here, before the first call, and assumed after the last one
	var pres []Clause
	if fn.Pkg != nil {
		if ct := e.ss.Contracts[fn.Pkg.Pkg.Path()+"."+funcKey(fn)]; ct != nil {
			pres = ct.Preserves
		}
	}
	siteEnv := func() *specEnv {
		env := &specEnv{e: e, fr: fr, vars: map[string]tval{}, ptrLoc: map[string]*Loc{}, varLoc: map[string]*Loc{}, mem: e.mem}
		if fn.Pkg != nil {
			env.pkg = fn.Pkg.Pkg
		}
		for i, fv := range fn.FreeVars {
			if i < len(mc.Bindings) {
				env.vars[fv.Name()] = e.mkT(e.value(mc.Bindings[i]), fv.Type())
				if l, ok := fr.loc[mc.Bindings[i]]; ok {
					env.ptrLoc[fv.Name()] = l
				}
			}
		}
		return env
	}
	for i, c := range pres {
		g, err := e.specBool(siteEnv(), c.E)
		if err != nil {
			e.contractError(fr, fmt.Sprintf("preserves %d of %s at its use: %v", i+1, fnFull(fn), err))
			continue
		}
		e.oblige("pre@"+fnFull(fn), g, mc.Pos(), "preserved by every call of the closure, so it must hold before the first: "+c.Text)
	}
	defer func() {
		for _, c := range pres {
			if g, err := e.specBool(siteEnv(), c.E); err == nil {
				e.assumeAt(g)
			}
		}
		if len(pres) > 0 {
			e.assumps["an external function given a closure calls nothing else of the repository: a condition every call of the closure preserves, and that holds before, holds afterwards"] = true
		}
	}()
	keys := map[string]bool{}
	allHeap := false
	for i, b := range mc.Bindings {
		if callsOut || writesCaptured[i] {
			e.addWriteBase(fr, b, keys, &allHeap)
			if l, ok := fr.loc[b]; ok {
				keys[l.base] = true
			}
		}
	}
	fa := e.w.frameOf(fn)
	for g := range fa.writes {
		keys[e.ensureGlobal(g)] = true
	}
	if fa.fs {
		keys[e.fsMem()] = true
	}
	if fa.heap || callsOut {
		allHeap = true
	}
	for _, k := range sortedKeys(e.mem) {
		switch {
		case keys[k]:
			e.havocKey(k)
		case allHeap && strings.HasPrefix(k, "H:"):
			e.havocKey(k)
		case callsOut && (strings.HasPrefix(k, "M:") || strings.HasPrefix(k, "V:")):
			e.havocKey(k) // maps and element-assigned slices reachable from the captured variables
		}
	}
	e.assumps["an external function given a repository closure may call it: everything the closure can write is unknown after the call"] = true
}
