package main

import (
	"fmt"
	"go/constant"
	"go/token"
	"go/types"
	"regexp"
	"strconv"
	"strings"

	"golang.org/x/tools/go/ssa"
)

type Term = string

type step struct {
	kind  string // field, sliceidx, arridx
	field string // accessor name
	idx   Term
	sort  string // sort of the container
	fi    int
}

// Loc: a memory location = base component (+ heap ref) + access path.
type Loc struct {
	base string
	ref  Term
	path []step
	sort string
	ty   types.Type
}

type Obligation struct {
	Name    string
	Class   string
	Fn      string
	Goal    Term
	At      Term
	NDecl   int
	NDef    int
	Pos     token.Position
	Text    string // clause text or instruction
	Cover   bool   // cover obligation: must be satisfiable (not unsat)
	Inputs  []modelVar
	Result  *SolveResult
	Inlined string
	Extra   string // extra declarations / assertions placed before the goal (relational obligations)
}

type modelVar struct {
	Name string // Go-level name (parameter / global)
	Term Term
	Ty   types.Type
	NDecl int   // number of declarations after which the term exists
}

type retInfo struct {
	provs map[int]*Loc // provenance of returned map values
	ptr  map[string]*Loc // what cells are known to point to at this return
	at   Term
	vals []Term
	mem  map[string]Term
	pos  token.Pos
	locs map[int]*Loc
}

// frame: per-function-activation state (root function or inlined callee)
type frame struct {
	fn       *ssa.Function
	val      map[ssa.Value]Term
	loc      map[ssa.Value]*Loc
	prov     map[ssa.Value]*Loc
	tuples   map[ssa.Value][]Term
	at       map[*ssa.BasicBlock]Term
	atEnd    map[*ssa.BasicBlock]Term
	memOut   map[*ssa.BasicBlock]map[string]Term
	returns  []retInfo
	backedge map[[2]int]bool
	loopHead map[*ssa.BasicBlock]bool
	loopOrd  map[*ssa.BasicBlock]int
	curObj   map[string]types.Object // the variable object behind curNames[name] when known (nil entry: a phi)
	loops    map[*ssa.BasicBlock]*loopState
	cur      Term // current path condition inside the block being executed
	depth    int
	parent   *frame
	contract *Contract
	entryMem map[string]Term
	prefix   string // obligation name prefix for inlined frames
	rangeOf  map[ssa.Value]*rangeState
	params   map[string]ssa.Value
	tupleLocs map[ssa.Value][]*Loc
	closures []*ssa.MakeClosure
	retLocs  map[int]*Loc
	retLocConflict bool
	nodeField map[ssa.Value]Term
	names    map[*ssa.BasicBlock]map[string]ssa.Value // source-level variable -> current SSA value at block end
	curNames map[string]ssa.Value
	callOrd  map[*ssa.Call]string // "callee#k" by source order
	allocByPos map[token.Pos]*ssa.Alloc
	activeRange *rangeState
	newRefs  []Term
	nret     int
	tupleProvs map[ssa.Value]*Loc
	tupleProvIdx map[ssa.Value]map[int]*Loc
	ptrOut   map[*ssa.BasicBlock]map[string]*Loc
}

var _ = 0

type heapStoreT = map[string][2]string

type loopState struct {
	ord      int
	spec     *LoopSpec
	head     *ssa.BasicBlock
	phiPre   map[*ssa.Phi]Term // havoced value at header
	memHead  map[string]Term
	decPre   Term
	mapPhis  map[*ssa.Phi]*Loc
	rangeIdx *ssa.Phi
	entryPhi map[*ssa.Phi]Term // values of the header phis when the loop is entered (x@in)
	memEntry map[string]Term  // memory when the loop is entered
	countIdx *ssa.Phi // induction variable of a counted loop (0, 1, 2, ...)
	countGuard *ssa.BinOp // the header's `i < n` when n is stable across the loop
	visCur   Term // the visited-keys ghost of a map range, as seen by the clause being translated
	rng      *rangeState
}

type rangeState struct {
	mapTerm Term
	msort   string
	mt      *types.Map
	visited Term // at loop header (havoced)
	dom0    Term
	curKey  Term
	nd0, nf0 int
	ord     int
}

type enc struct {
	w       *World
	ss      *SpecSet
	root    *ssa.Function
	so      *sorts
	decls   []string
	defs    []string
	mem     map[string]Term
	memSort map[string]string
	memTy   map[string]types.Type
	obls    []*Obligation
	n       int
	counts  map[string]int
	notes   []string
	inlined map[string]bool
	havoced map[string]bool
	extUsed map[string]bool
	ctrUsed map[string]bool
	trusted map[string]string
	assumps map[string]bool
	ufs     map[string]bool
	specDeclared map[string]bool
	axiomsDone   bool
	stack   []*ssa.Function
	sweep   bool // emit safety obligations
	inputs  []modelVar
	fr      *frame
	outOfSubset []string
	constGlobals map[*ssa.Global]bool
	init    map[string]Term // initial value of every memory component
	initMem map[string]Term // memory at entry of the root function
	cerrs   []string
	vcell   map[string]Term
	ptrIn   map[string]*Loc
	tags    map[string]int
	kinds   map[string]int
	rootDec Term
	noConst bool
	specSigs map[string]*specSig
	axioms  []specAxiom
	axUsed  map[string]bool
	syms    map[string]int
	nodeCand map[Term]nodeCand
	typeOfArg map[*ssa.Call]Term
	typeOfStatic map[*ssa.Call]string
	storesOnly bool
	dropAt  bool
	inlineCt *Contract
	wfSeen  map[string]bool
	resultTerms []modelVar
	finder  bool
	unfolded map[string]bool
	ufDecls []string
	heapStore heapStoreT
	mapAlias map[string][]*Loc
	rePats  map[string]string // resub_<hash> -> Go regular expression
	awbDepth int
	awbSeen  map[ssa.Value]bool
	recordCommute bool
	commuteSites  []commuteSite
}

// commuteSite: a map entry written inside a map range under a key that is not the range key
type commuteSite struct {
	ord            int
	pos            token.Pos
	at, key, val   Term
	rk             Term
	nd0, nf0       int // declarations / definitions at the start of the iteration
	nd1, nf1       int
	text           string
}

func newEnc(w *World, ss *SpecSet, fn *ssa.Function) *enc {
	e := newEnc0(w, ss, fn)
	e.so.of(strSliceTy)
	for _, n := range []string{"Itoa", "Upper", "Lower", "SplitF", "JoinF", "TrimSpaceF", "TrimLeftF", "AtoiV"} {
		e.ufs[n] = true
	}
	e.axUsed = map[string]bool{}
	return e
}

func newEnc0(w *World, ss *SpecSet, fn *ssa.Function) *enc {
	return &enc{w: w, ss: ss, root: fn, so: newSorts(), mem: map[string]Term{}, memSort: map[string]string{}, memTy: map[string]types.Type{},
		counts: map[string]int{}, inlined: map[string]bool{}, havoced: map[string]bool{}, extUsed: map[string]bool{}, ctrUsed: map[string]bool{},
		trusted: map[string]string{}, assumps: map[string]bool{}, ufs: map[string]bool{}, specDeclared: map[string]bool{}, sweep: true,
		constGlobals: map[*ssa.Global]bool{}, init: map[string]Term{}}
}

func newFrame(fn *ssa.Function, parent *frame) *frame {
	f := &frame{fn: fn, val: map[ssa.Value]Term{}, loc: map[ssa.Value]*Loc{}, prov: map[ssa.Value]*Loc{}, tuples: map[ssa.Value][]Term{},
		at: map[*ssa.BasicBlock]Term{}, atEnd: map[*ssa.BasicBlock]Term{}, memOut: map[*ssa.BasicBlock]map[string]Term{},
		loops: map[*ssa.BasicBlock]*loopState{}, parent: parent, rangeOf: map[ssa.Value]*rangeState{}, params: map[string]ssa.Value{},
		names: map[*ssa.BasicBlock]map[string]ssa.Value{}}
	if parent != nil {
		f.depth = parent.depth + 1
	}
	return f
}

func (e *enc) note(format string, a ...interface{}) {
	s := fmt.Sprintf(format, a...)
	for _, n := range e.notes {
		if n == s {
			return
		}
	}
	e.notes = append(e.notes, s)
}

func (e *enc) fresh(prefix, sort string) Term {
	e.n++
	name := fmt.Sprintf("%s_%d", clean(prefix), e.n)
	e.decls = append(e.decls, fmt.Sprintf("(declare-const %s %s)", name, sort))
	return name
}

func (e *enc) define(prefix, sort string, t Term) Term {
	if isAtom(t) {
		return t
	}
	name := e.fresh(prefix, sort)
	e.defs = append(e.defs, fmt.Sprintf("(= %s %s)", name, t))
	return name
}

func isAtom(t Term) bool {
	return !strings.ContainsAny(t, " (") || (strings.HasPrefix(t, "\"") && strings.HasSuffix(t, "\"") && !strings.Contains(t[1:len(t)-1], "\""))
}

func (e *enc) assume(t Term) { e.defs = append(e.defs, t) }

// assumeAt: assumption valid only on the current path
func (e *enc) assumeAt(t Term) {
	if e.fr.cur == "true" {
		e.defs = append(e.defs, t)
	} else {
		e.defs = append(e.defs, fmt.Sprintf("(=> %s %s)", e.fr.cur, t))
	}
}

// uf: uninterpreted function declarations go to an early section of every script (spec functions may mention them)
func (e *enc) uf(name string, argSorts []string, ret string) string {
	if !e.ufs[name] {
		e.ufs[name] = true
		e.ufDecls = append(e.ufDecls, fmt.Sprintf("(declare-fun %s (%s) %s)", name, strings.Join(argSorts, " "), ret))
	}
	return name
}

func (e *enc) oblige(class string, goal Term, pos token.Pos, text string) *Obligation {
	name := class
	if e.fr.prefix != "" {
		name = e.fr.prefix + class
	}
	e.counts[name]++
	o := &Obligation{
		Name:  fmt.Sprintf("%s/%s#%d", fnFull(e.root), name, e.counts[name]),
		Class: class, Fn: fnFull(e.root),
		Goal: goal, At: e.fr.cur, NDecl: len(e.decls), NDef: len(e.defs), Text: text,
	}
	if pos.IsValid() {
		o.Pos = e.w.Prog.Fset.Position(pos)
	}
	if e.fr.prefix != "" {
		o.Inlined = e.fr.prefix
	}
	e.obls = append(e.obls, o)
	return o
}

// safety obligation (only when sweeping)
func (e *enc) safety(class string, goal Term, pos token.Pos, text string) {
	if !e.sweep {
		return
	}
	if goal == "true" {
		return
	}
	e.oblige(class, goal, pos, text)
	// after the check, execution continues only if it held
	e.assumeAt(goal)
}

func smtStr(s string) string {
	var b strings.Builder
	b.WriteByte('"')
	for _, c := range []byte(s) {
		if c == '"' {
			b.WriteString(`""`)
		} else if c < 0x20 || c > 0x7e || c == '\\' {
			fmt.Fprintf(&b, "\\u{%x}", c)
		} else {
			b.WriteByte(c)
		}
	}
	b.WriteByte('"')
	return b.String()
}

func smtInt(i int64) string {
	if i < 0 {
		return fmt.Sprintf("(- %d)", -i)
	}
	return strconv.FormatInt(i, 10)
}

func isIface(t types.Type) bool {
	_, ok := t.Underlying().(*types.Interface)
	return ok
}

func (e *enc) nilOf(t types.Type) Term { return "0" }

func (e *enc) zero(t types.Type) Term {
	s := e.so.of(t)
	if isCtxStruct(t) {
		return "0"
	}
	switch u := t.Underlying().(type) {
	case *types.Basic:
		switch s {
		case "Bool":
			return "false"
		case "Int":
			return "0"
		case "String":
			return `""`
		case "Real":
			return "0.0"
		}
	case *types.Slice:
		return fmt.Sprintf("(mk_%s %s 0 true)", s, e.uf("zarr_"+clean(s), nil, fmt.Sprintf("(Array Int %s)", e.so.of(u.Elem()))))
	case *types.Map:
		e.zvalFacts(s, u)
		return fmt.Sprintf("(mk_%s ((as const (Array %s Bool)) false) %s true)", s, e.so.of(u.Key()), e.uf("zval_"+clean(s), nil, fmt.Sprintf("(Array %s %s)", e.so.of(u.Key()), e.so.of(u.Elem()))))
	case *types.Pointer:
		return "0"
	case *types.Interface:
		return "0"
	case *types.Signature, *types.Chan:
		return "0"
	case *types.Struct:
		if strings.HasPrefix(s, "U_") {
			return e.fresh("zopq", s)
		}
		fs := e.so.fields[s]
		if len(fs) == 0 {
			return "mk_" + s
		}
		var parts []string
		for i := 0; i < u.NumFields(); i++ {
			if fs[i].opaque {
				parts = append(parts, e.uf("zero_"+fs[i].sort, nil, fs[i].sort))
			} else {
				parts = append(parts, e.zero(u.Field(i).Type()))
			}
		}
		return fmt.Sprintf("(mk_%s %s)", s, strings.Join(parts, " "))
	case *types.Array:
		z := e.zero(u.Elem())
		if isValueTerm(z) {
			return fmt.Sprintf("((as const (Array Int %s)) %s)", e.so.of(u.Elem()), z)
		}
		return e.uf("zarrv_"+clean(e.so.of(u.Elem())), nil, fmt.Sprintf("(Array Int %s)", e.so.of(u.Elem())))
	}
	return e.uf("zero_"+clean(s), nil, s)
}

func (e *enc) constant(c *ssa.Const) Term {
	if c.Value == nil {
		return e.zero(c.Type())
	}
	switch c.Value.Kind() {
	case constant.Bool:
		return strconv.FormatBool(constant.BoolVal(c.Value))
	case constant.Int:
		i, _ := constant.Int64Val(c.Value)
		return smtInt(i)
	case constant.String:
		return smtStr(constant.StringVal(c.Value))
	}
	return e.fresh("const", e.so.of(c.Type()))
}

func (e *enc) value(v ssa.Value) Term {
	fr := e.fr
	// maps are references: a register holding a map whose content lives in a cell always denotes the current content
	if p, ok := fr.prov[v]; ok {
		if _, isMap := v.Type().Underlying().(*types.Map); isMap {
			switch v.(type) {
			case *ssa.MakeMap, *ssa.Parameter, *ssa.Phi, *ssa.Extract, *ssa.Call:
				if _, ok := fr.val[v]; ok {
					return e.read(p)
				}
			}
		}
	}
	if p, ok := fr.prov[v]; ok && strings.HasPrefix(p.base, "V:") && len(p.path) == 0 {
		if _, isSlice := v.Type().Underlying().(*types.Slice); isSlice {
			return e.read(p) // a slice whose elements were assigned in place: its current content
		}
	}
	if t, ok := fr.val[v]; ok {
		return t
	}
	switch x := v.(type) {
	case *ssa.Const:
		return e.constant(x)
	case *ssa.Parameter:
		t := e.fresh("p_"+x.Name(), e.so.of(x.Type()))
		fr.val[v] = t
		e.assumeWF(t, x.Type(), 2)
		e.assumeAllocated(t, x.Type())
		if _, isMap := x.Type().Underlying().(*types.Map); isMap {
			// maps are references: the parameter's current content lives in a cell so that updates are visible
			key := fmt.Sprintf("P:%s:%d:%s", clean(fr.fn.Name()), fr.depth, x.Name())
			e.memSort[key] = e.so.of(x.Type())
			e.memTy[key] = x.Type()
			e.mem[key] = t
			e.init[key] = t
			fr.prov[v] = &Loc{base: key, sort: e.so.of(x.Type()), ty: x.Type()}
		}
		return t
	case *ssa.FreeVar:
		t := e.fresh("fv_"+x.Name(), e.so.of(x.Type()))
		fr.val[v] = t
		return t
	case *ssa.Function:
		t := e.uf("fn_"+clean(x.String()), nil, "Int")
		fr.val[v] = t
		return t
	case *ssa.Global:
		return "0"
	case *ssa.Builtin:
		return "0"
	}
	if l, ok := fr.loc[v]; ok && l.ref != "" && len(l.path) == 0 {
		return l.ref
	}
	if l, ok := fr.loc[v]; ok && l.ref == "" && l.sort == "Int" && l.ty != nil && isCtxStruct(l.ty) {
		// the address of a local copy of a rule context: the same tree node
		return e.read(l)
	}
	if _, ok := fr.loc[v]; ok {
		// a pointer into a local cell used as a plain value: opaque non-nil ref
		t := e.fresh("addr", "Int")
		e.assume(fmt.Sprintf("(> %s 0)", t))
		fr.val[v] = t
		return t
	}
	t := e.fresh("unk_"+v.Name(), e.so.of(v.Type()))
	e.note("unmodelled value %T %s in %s", v, v, fnFull(fr.fn))
	fr.val[v] = t
	return t
}

// well-formedness of incoming data (type invariants): slice lengths non-negative, nil slices empty.
func (e *enc) assumeWF(t Term, ty types.Type, depth int) {
	for _, c := range e.wfConds(t, ty, depth) {
		e.assume(c)
	}
}

func (e *enc) wfConds(t Term, ty types.Type, depth int) []Term {
	s := e.so.of(ty)
	switch ty.Underlying().(type) {
	case *types.Slice:
		return []Term{fmt.Sprintf("(and (>= (len_%s %s) 0) (=> (nil_%s %s) (= (len_%s %s) 0)))", s, t, s, t, s, t)}
	case *types.Pointer:
		if !isNodeType(ty) {
			return []Term{fmt.Sprintf("(>= %s 0)", t)}
		}
	}
	return nil
}

// useMap: type invariant of a map value, assumed where the value is read: keys outside the domain hold the zero value
// (every constructor preserves it: make, update, delete). With it m[k] is simply (select (val m) k).
func (e *enc) useMap(t Term, sort string, mt *types.Map) {
	if e.wfSeen == nil {
		e.wfSeen = map[string]bool{}
	}
	cur := "true"
	if e.fr != nil && e.fr.cur != "" {
		cur = e.fr.cur
	}
	k := "map|" + sort + "|" + t + "|" + cur
	if e.wfSeen[k] || e.wfSeen["map|"+sort+"|"+t+"|true"] || boundVarRe.MatchString(t) {
		return
	}
	e.wfSeen[k] = true
	ks := e.so.of(mt.Key())
	fact := fmt.Sprintf("(forall ((wf_k %s)) (! (=> (not (select (dom_%s %s) wf_k)) (= (select (val_%s %s) wf_k) %s)) :pattern ((select (val_%s %s) wf_k))))", ks, sort, t, sort, t, e.zero(mt.Elem()), sort, t)
	if cur == "true" {
		e.assume(fact)
	} else {
		e.assume(fmt.Sprintf("(=> %s %s)", cur, fact)) // only on the path that uses the value
	}
}

// zvalFacts: the value array of an empty map holds the zero value everywhere
func (e *enc) zvalFacts(sort string, mt *types.Map) {
	e.once("zval#"+sort, func() {
		ks := e.so.of(mt.Key())
		zv := e.uf("zval_"+clean(sort), nil, fmt.Sprintf("(Array %s %s)", ks, e.so.of(mt.Elem())))
		e.decls = append(e.decls, fmt.Sprintf("(assert (forall ((wf_k %s)) (! (= (select %s wf_k) %s) :pattern ((select %s wf_k)))))", ks, zv, e.zero(mt.Elem()), zv))
	})
}

// useSlice: type invariant of a slice value, assumed where the value is used (every constructor preserves it)
func (e *enc) useSlice(t Term, sort string) {
	if e.wfSeen == nil {
		e.wfSeen = map[string]bool{}
	}
	cur := "true"
	if e.fr != nil && e.fr.cur != "" {
		cur = e.fr.cur
	}
	k := sort + "|" + t + "|" + cur
	if e.wfSeen[k] || e.wfSeen[sort+"|"+t+"|true"] || boundVarRe.MatchString(t) {
		return
	}
	e.wfSeen[k] = true
	// only on the path that uses the value: a slice computed on a path that is not taken (s[0:len(s)-1] of an empty s)
	// is not well formed, and saying so unconditionally would make the whole script inconsistent
	fact := fmt.Sprintf("(and (>= (len_%s %s) 0) (=> (nil_%s %s) (= (len_%s %s) 0)))", sort, t, sort, t, sort, t)
	if cur == "true" {
		e.assume(fact)
	} else {
		e.assume(fmt.Sprintf("(=> %s %s)", cur, fact))
	}
}

// ---------- memory

func (e *enc) globalKey(g *ssa.Global) string { return "G:" + g.Pkg.Pkg.Name() + "." + g.Name() }

func (e *enc) ensureGlobal(g *ssa.Global) string {
	key := e.globalKey(g)
	if _, ok := e.mem[key]; !ok {
		if v, ok := e.init[key]; ok {
			// first touched on a sibling path: on this path it still holds its initial value
			e.mem[key] = v
			return key
		}
	}
	if _, ok := e.mem[key]; !ok {
		elem := g.Type().(*types.Pointer).Elem()
		e.memSort[key] = e.so.of(elem)
		e.memTy[key] = elem
		if t, ok := e.constInit(g); ok {
			e.mem[key] = t
			e.constGlobals[g] = true
		} else {
			e.mem[key] = e.fresh("g0_"+g.Name(), e.so.of(elem))
			e.assumeWF(e.mem[key], elem, 2)
			e.inputs = append(e.inputs, modelVar{Name: g.Pkg.Pkg.Name() + "." + g.Name(), Term: e.mem[key], Ty: elem, NDecl: len(e.decls)})
			if g.Pkg != nil && g.Pkg.Pkg.Path() == "os" && (g.Name() == "Stdout" || g.Name() == "Stderr" || g.Name() == "Stdin") {
				e.assume(fmt.Sprintf("(> %s 0)", e.mem[key]))
				e.assumps["os.Stdin / os.Stdout / os.Stderr are non-nil files"] = true
			}
		}
		// make the initial value visible to every already-saved snapshot (entry memory etc.)
		for f := e.fr; f != nil; f = f.parent {
			if f.entryMem != nil {
				if _, ok := f.entryMem[key]; !ok {
					f.entryMem[key] = e.mem[key]
				}
			}
		}
		if e.initMem != nil {
			e.initMem[key] = e.mem[key]
		}
		e.init[key] = e.mem[key]
	}
	return key
}

func (e *enc) heapKey(elem types.Type) string {
	es := e.so.of(elem)
	key := "H:" + es
	if _, ok := e.mem[key]; !ok {
		if v, ok := e.init[key]; ok {
			e.mem[key] = v
			return key
		}
	}
	if _, ok := e.mem[key]; !ok {
		e.memSort[key] = fmt.Sprintf("(Array Int %s)", es)
		e.memTy[key] = elem
		if e.readOnlyExt(elem) {
			// structs of a read-only external package (go/ast: the repository never stores into them): one constant heap for
			// the whole run, so that spec functions reading it are functions of their arguments
			e.mem[key] = e.uf("ROH_"+clean(es), nil, e.memSort[key])
			e.assumps["go/ast nodes are read-only data: no repository function stores into them (checked over the SSA of the repository); external calls do not modify them"] = true
		} else {
			e.mem[key] = e.fresh("heap0_"+es, e.memSort[key])
		}
		for f := e.fr; f != nil; f = f.parent {
			if f.entryMem != nil {
				if _, ok := f.entryMem[key]; !ok {
					f.entryMem[key] = e.mem[key]
				}
			}
		}
		if e.initMem != nil {
			e.initMem[key] = e.mem[key]
		}
		e.init[key] = e.mem[key]
	}
	return key
}

func (e *enc) locOf(v ssa.Value) *Loc {
	fr := e.fr
	if l, ok := fr.loc[v]; ok {
		return l
	}
	switch x := v.(type) {
	case *ssa.Global:
		key := e.ensureGlobal(x)
		elem := x.Type().(*types.Pointer).Elem()
		l := &Loc{base: key, sort: e.so.of(elem), ty: elem}
		return l
	}
	pt, ok := v.Type().Underlying().(*types.Pointer)
	if !ok {
		return nil
	}
	if isNodeType(pt) || isNodeType(pt.Elem()) {
		return nil
	}
	key := e.heapKey(pt.Elem())
	return &Loc{base: key, ref: e.value(v), sort: e.so.of(pt.Elem()), ty: pt.Elem()}
}

func (e *enc) readIn(mem map[string]Term, l *Loc) Term {
	t, ok := mem[l.base]
	if !ok {
		// a component created after the snapshot was taken held its initial value then
		if v, has := e.init[l.base]; has {
			t = v
		} else {
			t = e.mem[l.base]
		}
	}
	if l.ref != "" {
		if hs, ok := e.heapStore[t]; ok && hs[0] == l.ref {
			t = hs[1] // reading the object that was just written at this very reference
		} else {
			t = fmt.Sprintf("(select %s %s)", t, l.ref)
		}
	}
	for _, s := range l.path {
		switch s.kind {
		case "field":
			t = fmt.Sprintf("(%s %s)", s.field, t)
		case "sliceidx":
			t = fmt.Sprintf("(select (arr_%s %s) %s)", s.sort, t, s.idx)
		case "arridx":
			t = fmt.Sprintf("(select %s %s)", t, s.idx)
		case "mapval":
			t = fmt.Sprintf("(select (val_%s %s) %s)", s.sort, t, s.idx)
		}
	}
	return t
}

func (e *enc) read(l *Loc) Term { return e.readIn(e.mem, l) }

func (e *enc) updated(cur Term, path []step, v Term) Term {
	if len(path) == 0 {
		return v
	}
	s := path[0]
	switch s.kind {
	case "field":
		fs := e.so.fields[s.sort]
		var parts []string
		for i, f := range fs {
			acc := fmt.Sprintf("(%s.%s %s)", s.sort, f.name, cur)
			if i == s.fi {
				parts = append(parts, e.updated(acc, path[1:], v))
			} else {
				parts = append(parts, acc)
			}
		}
		return fmt.Sprintf("(mk_%s %s)", s.sort, strings.Join(parts, " "))
	case "sliceidx":
		inner := fmt.Sprintf("(select (arr_%s %s) %s)", s.sort, cur, s.idx)
		return fmt.Sprintf("(mk_%s (store (arr_%s %s) %s %s) (len_%s %s) (nil_%s %s))", s.sort, s.sort, cur, s.idx, e.updated(inner, path[1:], v), s.sort, cur, s.sort, cur)
	case "arridx":
		inner := fmt.Sprintf("(select %s %s)", cur, s.idx)
		return fmt.Sprintf("(store %s %s %s)", cur, s.idx, e.updated(inner, path[1:], v))
	case "mapval":
		// the map held as the value of an entry of an outer map: written back into that entry
		inner := fmt.Sprintf("(select (val_%s %s) %s)", s.sort, cur, s.idx)
		return fmt.Sprintf("(mk_%s (dom_%s %s) (store (val_%s %s) %s %s) (nil_%s %s))", s.sort, s.sort, cur, s.sort, cur, s.idx, e.updated(inner, path[1:], v), s.sort, cur)
	}
	panic("step")
}

func (e *enc) write(l *Loc, v Term) {
	cur := e.mem[l.base]
	var nv Term
	var newObj Term
	if l.ref != "" {
		inner := fmt.Sprintf("(select %s %s)", cur, l.ref)
		if hs, ok := e.heapStore[cur]; ok && hs[0] == l.ref {
			inner = hs[1]
		}
		newObj = e.define("obj", l.objSort(e), e.updated(inner, l.path, v))
		nv = fmt.Sprintf("(store %s %s %s)", cur, l.ref, newObj)
	} else {
		nv = e.updated(cur, l.path, v)
	}
	e.n++
	name := fmt.Sprintf("m_%s_%d", clean(l.base), e.n)
	e.decls = append(e.decls, fmt.Sprintf("(declare-const %s %s)", name, e.memSort[l.base]))
	e.defs = append(e.defs, fmt.Sprintf("(= %s %s)", name, nv))
	e.mem[l.base] = name
	if newObj != "" {
		if e.heapStore == nil {
			e.heapStore = map[string][2]string{}
		}
		e.heapStore[name] = [2]string{l.ref, newObj}
	}
}

// objSort: sort of the objects stored in the heap this location lives in
func (l *Loc) objSort(e *enc) string {
	s := e.memSort[l.base] // (Array Int S)
	s = strings.TrimPrefix(s, "(Array Int ")
	return strings.TrimSuffix(s, ")")
}

func (e *enc) readOnlyExt(elem types.Type) bool {
	n, ok := elem.(*types.Named)
	if !ok || n.Obj().Pkg() == nil || n.Obj().Pkg().Path() != "go/ast" {
		return false
	}
	return !e.w.extWritten("go/ast")
}

func (e *enc) havocKey(k string) {
	if strings.HasPrefix(k, "H:") {
		if ty, ok := e.memTy[k]; ok && e.readOnlyExt(ty) {
			return
		}
	}
	for pk := range e.ptrIn {
		if pk == k || strings.HasPrefix(pk, k+"|") {
			delete(e.ptrIn, pk)
		}
	}
	e.mem[k] = e.fresh("hv_"+k, e.memSort[k])
	if ty, ok := e.memTy[k]; ok && !strings.HasPrefix(k, "H:") {
		e.assumeWF(e.mem[k], ty, 2)
	}
}

func copyMem(m map[string]Term) map[string]Term {
	o := make(map[string]Term, len(m))
	for k, v := range m {
		o[k] = v
	}
	return o
}

var boundVarRe = regexp.MustCompile(`(^|[^A-Za-z0-9_])(a|q|wf|sq|ex)_[A-Za-z0-9_]+`)

func isValueTerm(z Term) bool {
	return !strings.Contains(z, "zero_") && !strings.Contains(z, "zarr") && !strings.Contains(z, "zval_") && !strings.Contains(z, "zopq")
}

// isCtxStruct: a generated rule-context struct type (XContext of a parser package)
func isCtxStruct(t types.Type) bool {
	n, ok := t.(*types.Named)
	if !ok || n.Obj().Pkg() == nil {
		return false
	}
	_, isStruct := n.Underlying().(*types.Struct)
	return isStruct && strings.Contains(n.Obj().Pkg().Path(), "/languages/") && strings.HasSuffix(n.Obj().Name(), "Context")
}
