package main

import (
	"encoding/json"
	"fmt"
	"os"
	"path/filepath"
	"sort"
	"strings"
	"unicode"
)

// ANTLR4 grammar reader: just enough of the .g4 syntax to recover, for every parser rule (and every labelled
// alternative), the regular expression over rule references and token references that its children must match.
// Actions, predicates, element options and element labels do not change the tree shape and are dropped.

type gNode struct {
	kind string // seq alt opt star plus sym any
	kids []*gNode
	sym  string // rule name (lower-case initial) or token name
	tok  bool
	id   int
	never bool // a branch the parser never produces (shadowed by an earlier alternative): see spec/shapes.json
}

type gAlt struct {
	label string
	body  *gNode
}

type gRule struct {
	name string
	alts []gAlt
}

type grammar struct {
	name  string
	rules map[string]*gRule
	order []string
	lits  map[string]string // 'literal' -> token name
}

type g4tok struct {
	k string // id, lit, op, action, set
	v string
}

func lexG4(src string) ([]g4tok, error) {
	var out []g4tok
	i := 0
	n := len(src)
	for i < n {
		c := src[i]
		switch {
		case c == ' ' || c == '\t' || c == '\n' || c == '\r':
			i++
		case c == '/' && i+1 < n && src[i+1] == '/':
			for i < n && src[i] != '\n' {
				i++
			}
		case c == '/' && i+1 < n && src[i+1] == '*':
			j := strings.Index(src[i+2:], "*/")
			if j < 0 {
				return nil, fmt.Errorf("unterminated comment")
			}
			i += j + 4
		case c == '\'':
			j := i + 1
			for j < n && src[j] != '\'' {
				if src[j] == '\\' {
					j++
				}
				j++
			}
			out = append(out, g4tok{"lit", src[i : j+1]})
			i = j + 1
		case c == '[':
			j := i + 1
			for j < n && src[j] != ']' {
				if src[j] == '\\' {
					j++
				}
				j++
			}
			out = append(out, g4tok{"set", src[i : j+1]})
			i = j + 1
		case c == '{':
			depth := 0
			j := i
			for j < n {
				if src[j] == '{' {
					depth++
				} else if src[j] == '}' {
					depth--
					if depth == 0 {
						break
					}
				} else if src[j] == '\'' || src[j] == '"' {
					q := src[j]
					j++
					for j < n && src[j] != q {
						if src[j] == '\\' {
							j++
						}
						j++
					}
				}
				j++
			}
			out = append(out, g4tok{"action", src[i : j+1]})
			i = j + 1
		case unicode.IsLetter(rune(c)) || c == '_':
			j := i
			for j < n && (unicode.IsLetter(rune(src[j])) || unicode.IsDigit(rune(src[j])) || src[j] == '_') {
				j++
			}
			out = append(out, g4tok{"id", src[i:j]})
			i = j
		case c == '-' && i+1 < n && src[i+1] == '>':
			out = append(out, g4tok{"op", "->"})
			i += 2
		case c == '+' && i+1 < n && src[i+1] == '=':
			out = append(out, g4tok{"op", "+="})
			i += 2
		case c == '.' && i+1 < n && src[i+1] == '.':
			out = append(out, g4tok{"op", ".."})
			i += 2
		default:
			out = append(out, g4tok{"op", string(c)})
			i++
		}
	}
	out = append(out, g4tok{"eof", ""})
	return out, nil
}

type g4parser struct {
	t   []g4tok
	p   int
	g   *grammar
	nid int
}

func (p *g4parser) peek() g4tok { return p.t[p.p] }
func (p *g4parser) next() g4tok { t := p.t[p.p]; p.p++; return t }
func (p *g4parser) isOp(v string) bool {
	return p.t[p.p].k == "op" && p.t[p.p].v == v
}

func parseG4(src string, lits map[string]string) (g *grammar, err error) {
	toks, err := lexG4(src)
	if err != nil {
		return nil, err
	}
	p := &g4parser{t: toks, g: &grammar{rules: map[string]*gRule{}, lits: lits}}
	defer func() {
		if r := recover(); r != nil {
			err = fmt.Errorf("g4: %v", r)
		}
	}()
	// header: [parser|lexer] grammar Name ;
	for p.peek().k == "id" && (p.peek().v == "parser" || p.peek().v == "lexer") {
		p.next()
	}
	if p.peek().k == "id" && p.peek().v == "grammar" {
		p.next()
		p.g.name = p.next().v
		for !p.isOp(";") {
			p.next()
		}
		p.next()
	}
	for p.peek().k != "eof" {
		t := p.peek()
		switch {
		case t.k == "id" && (t.v == "options" || t.v == "tokens" || t.v == "channels"):
			p.next()
			p.next() // { ... } lexed as one action token
		case t.k == "id" && t.v == "import":
			for !p.isOp(";") {
				p.next()
			}
			p.next()
		case t.k == "op" && t.v == "@":
			p.next()
			for p.peek().k != "action" {
				p.next()
			}
			p.next()
		case t.k == "id" && t.v == "fragment":
			p.next()
		case t.k == "id" && t.v == "mode":
			for !p.isOp(";") {
				p.next()
			}
			p.next()
		case t.k == "id":
			p.rule()
		default:
			panic(fmt.Sprintf("unexpected %q at token %d", t.v, p.p))
		}
	}
	return p.g, nil
}

func (p *g4parser) rule() {
	name := p.next().v
	// optional: [args] returns [..] locals [..] @init {..} options {..}
	for !p.isOp(":") {
		if p.peek().k == "eof" {
			panic("rule " + name + ": no ':'")
		}
		p.next()
	}
	p.next()
	r := &gRule{name: name}
	for {
		body := p.seq()
		label := ""
		if p.isOp("#") {
			p.next()
			label = p.next().v
		}
		r.alts = append(r.alts, gAlt{label: label, body: body})
		if p.isOp("|") {
			p.next()
			continue
		}
		break
	}
	// lexer commands / exception specs
	for !p.isOp(";") {
		if p.peek().k == "eof" {
			panic("rule " + name + ": no ';'")
		}
		p.next()
	}
	p.next()
	if unicode.IsLower(rune(name[0])) {
		p.g.rules[name] = r
		p.g.order = append(p.g.order, name)
	}
}

func (p *g4parser) mk(kind string, kids ...*gNode) *gNode {
	p.nid++
	return &gNode{kind: kind, kids: kids, id: p.nid}
}

func (p *g4parser) alts() *gNode {
	var as []*gNode
	for {
		as = append(as, p.seq())
		if p.isOp("|") {
			p.next()
			continue
		}
		break
	}
	if len(as) == 1 {
		return as[0]
	}
	return p.mk("alt", as...)
}

func (p *g4parser) seq() *gNode {
	var es []*gNode
	for {
		t := p.peek()
		if t.k == "eof" || (t.k == "op" && (t.v == "|" || t.v == ")" || t.v == ";" || t.v == "#" || t.v == "->")) {
			break
		}
		if e := p.element(); e != nil {
			es = append(es, e)
		}
	}
	return p.mk("seq", es...)
}

func (p *g4parser) element() *gNode {
	t := p.next()
	var atom *gNode
	switch {
	case t.k == "action":
		if p.isOp("?") {
			p.next() // semantic predicate
		}
		return nil
	case t.k == "op" && t.v == "<":
		// element options <assoc=right>
		for !p.isOp(">") {
			p.next()
		}
		p.next()
		return nil
	case t.k == "id" && (p.isOp("=") || p.isOp("+=")):
		// element label
		p.next()
		return p.element()
	case t.k == "id":
		atom = p.mk("sym")
		atom.sym = t.v
		atom.tok = unicode.IsUpper(rune(t.v[0]))
		if p.isOp("<") {
			for !p.isOp(">") {
				p.next()
			}
			p.next()
		}
	case t.k == "lit":
		atom = p.mk("sym")
		atom.tok = true
		if n, ok := p.g.lits[t.v]; ok {
			atom.sym = n
		} else {
			atom.sym = "LIT:" + t.v
		}
		if p.isOp("..") {
			p.next()
			p.next()
			atom.sym = "ANY"
		}
	case t.k == "set":
		atom = p.mk("sym")
		atom.tok = true
		atom.sym = "ANY"
	case t.k == "op" && t.v == "~":
		// ~x or ~( ... ): one token not in the set
		if p.isOp("(") {
			p.next()
			p.alts()
			p.next()
		} else {
			p.next()
		}
		atom = p.mk("sym")
		atom.tok = true
		atom.sym = "ANY"
	case t.k == "op" && t.v == ".":
		atom = p.mk("sym")
		atom.tok = true
		atom.sym = "ANY"
	case t.k == "op" && t.v == "(":
		atom = p.alts()
		if !p.isOp(")") {
			panic(fmt.Sprintf("expected ')' near token %d (%q)", p.p, p.peek().v))
		}
		p.next()
	default:
		panic(fmt.Sprintf("unexpected %q in rule body (token %d)", t.v, p.p))
	}
	// suffix
	for {
		switch {
		case p.isOp("?"):
			p.next()
			if atom.kind != "opt" && atom.kind != "star" {
				atom = p.mk("opt", atom)
			}
		case p.isOp("*"):
			p.next()
			atom = p.mk("star", atom)
			if p.isOp("?") {
				p.next()
			}
		case p.isOp("+"):
			p.next()
			atom = p.mk("plus", atom)
			if p.isOp("?") {
				p.next()
			}
		default:
			return atom
		}
	}
}

// ---------- shapes of context types

type ctxShape struct {
	name  string // Go type name: ClassDeclarationContext
	rule  string
	body  *gNode
	syms  []string // symbols occurring in the body (sorted)
	pre   [][]string
	preOK bool
	suf   [][]string
	nonLast  []string // symbols that can stand at a position other than the last
	nonFirst []string // symbols that can stand at a position other than the first
}

type shapeDB struct {
	pkgPath string
	g       *grammar
	ctx     map[string]*ctxShape // context type name -> shape
	kinds   map[string][]string  // rule -> context type names a node of that rule may have
	parents map[string][]string  // context type name -> context type names that may be its parent
	nullable map[string]bool
	start   map[string]bool // rules used as parse entry points
	bad     map[string]string // context types whose generated accessors disagree with the grammar text
	pruned  []string
	pruneMiss []string
	minTok  map[string]int // rule -> least number of tokens one of its matches consists of
}

type shapePrune struct {
	Rule  string `json:"rule"`
	First string `json:"first"`
	Why   string `json:"why"`
}

func loadShapePrunes(lang string) []shapePrune {
	b, err := os.ReadFile(filepath.Join(verifDir, "spec", "shapes.json"))
	if err != nil {
		return nil
	}
	var cfg map[string][]shapePrune
	if json.Unmarshal(b, &cfg) != nil {
		return nil
	}
	return cfg[lang]
}

func firstSym(n *gNode) *gNode {
	switch n.kind {
	case "sym":
		return n
	case "seq":
		if len(n.kids) > 0 {
			return firstSym(n.kids[0])
		}
	}
	return nil
}

var (
	_ = json.Marshal
)

func capFirst(s string) string {
	if s == "" {
		return s
	}
	return strings.ToUpper(s[:1]) + s[1:]
}

func readTokensFile(path string) map[string]string {
	lits := map[string]string{}
	b, err := os.ReadFile(path)
	if err != nil {
		return lits
	}
	byNum := map[string]string{}
	var litLines [][2]string
	for _, l := range strings.Split(string(b), "\n") {
		i := strings.LastIndex(l, "=")
		if i < 0 {
			continue
		}
		k, v := l[:i], strings.TrimSpace(l[i+1:])
		if strings.HasPrefix(k, "'") {
			litLines = append(litLines, [2]string{k, v})
		} else {
			byNum[v] = k
		}
	}
	for _, kv := range litLines {
		if n, ok := byNum[kv[1]]; ok {
			lits[kv[0]] = n
		}
	}
	return lits
}

// loadShapes: grammar text of one generated parser package (dir = /repo/languages/<lang>)
func loadShapes(pkgPath, dir string) (*shapeDB, error) {
	var parserG4, tokens string
	cands, _ := filepath.Glob(filepath.Join(dir, "*Parser.g4"))
	if len(cands) == 0 {
		// grammars kept in languages/g4: match by the generated file's grammar name
		interp, _ := filepath.Glob(filepath.Join(dir, "*Parser.interp"))
		for _, ip := range interp {
			n := strings.TrimSuffix(filepath.Base(ip), ".interp")
			c := filepath.Join(filepath.Dir(dir), "g4", n+".g4")
			if _, err := os.Stat(c); err == nil {
				cands = append(cands, c)
			}
		}
	}
	if len(cands) == 0 {
		return nil, fmt.Errorf("no parser grammar for %s", dir)
	}
	parserG4 = cands[0]
	tk, _ := filepath.Glob(filepath.Join(dir, "*Parser.tokens"))
	if len(tk) > 0 {
		tokens = tk[0]
	}
	src, err := os.ReadFile(parserG4)
	if err != nil {
		return nil, err
	}
	g, err := parseG4(string(src), readTokensFile(tokens))
	if err != nil {
		return nil, fmt.Errorf("%s: %v", parserG4, err)
	}
	db := &shapeDB{pkgPath: pkgPath, g: g, ctx: map[string]*ctxShape{}, kinds: map[string][]string{}, parents: map[string][]string{}, nullable: map[string]bool{}, start: map[string]bool{}, bad: map[string]string{}}
	for _, rn := range g.order {
		r := g.rules[rn]
		labelled := false
		for _, a := range r.alts {
			if a.label != "" {
				labelled = true
			}
		}
		if !labelled {
			var bodies []*gNode
			for _, a := range r.alts {
				bodies = append(bodies, a.body)
			}
			body := bodies[0]
			if len(bodies) > 1 {
				body = &gNode{kind: "alt", kids: bodies, id: -len(db.ctx) - 1}
			}
			n := capFirst(rn) + "Context"
			db.ctx[n] = &ctxShape{name: n, rule: rn, body: body}
			db.kinds[rn] = []string{n}
			continue
		}
		byLabel := map[string][]*gNode{}
		var labels []string
		for _, a := range r.alts {
			l := a.label
			if l == "" {
				l = rn // unlabelled alternative of a labelled rule: the rule's own context (not allowed by ANTLR, kept for safety)
			}
			if _, ok := byLabel[l]; !ok {
				labels = append(labels, l)
			}
			byLabel[l] = append(byLabel[l], a.body)
		}
		for _, l := range labels {
			bodies := byLabel[l]
			body := bodies[0]
			if len(bodies) > 1 {
				body = &gNode{kind: "alt", kids: bodies, id: -len(db.ctx) - 1}
			}
			n := capFirst(l) + "Context"
			db.ctx[n] = &ctxShape{name: n, rule: rn, body: body}
			db.kinds[rn] = append(db.kinds[rn], n)
		}
	}
	// branches the parser never produces (justified in spec/shapes.json)
	for _, pr := range loadShapePrunes(filepath.Base(dir)) {
		hit := false
		for _, cs := range db.ctx {
			if cs.rule != pr.Rule {
				continue
			}
			var visit func(n *gNode)
			visit = func(n *gNode) {
				if n.kind == "alt" {
					for _, b := range n.kids {
						if f := firstSym(b); f != nil && f.sym == pr.First {
							b.never = true
							hit = true
						}
					}
				}
				for _, k := range n.kids {
					visit(k)
				}
			}
			visit(cs.body)
		}
		if !hit {
			db.pruneMiss = append(db.pruneMiss, pr.Rule+"/"+pr.First)
		} else {
			db.pruned = append(db.pruned, fmt.Sprintf("%s: branch starting with %s — %s", pr.Rule, pr.First, pr.Why))
		}
	}
	// unique ids for the nodes of all bodies (auxiliary multiplicity variables are keyed by them)
	nid := 0
	var renum func(n *gNode)
	renum = func(n *gNode) {
		nid++
		n.id = nid
		for _, k := range n.kids {
			renum(k)
		}
	}
	var names []string
	for n := range db.ctx {
		names = append(names, n)
	}
	sort.Strings(names)
	for _, n := range names {
		renum(db.ctx[n].body)
	}
	// nullable rules (fixpoint)
	for changed := true; changed; {
		changed = false
		for _, rn := range g.order {
			if db.nullable[rn] {
				continue
			}
			for _, a := range g.rules[rn].alts {
				if db.nullableNode(a.body) {
					db.nullable[rn] = true
					changed = true
					break
				}
			}
		}
	}
	// least number of tokens per rule (fixpoint from above)
	db.minTok = map[string]int{}
	const inf = 1 << 20
	for _, rn := range g.order {
		db.minTok[rn] = inf
	}
	for changed := true; changed; {
		changed = false
		for _, rn := range g.order {
			m := inf
			for _, a := range g.rules[rn].alts {
				if v := db.minTokNode(a.body); v < m {
					m = v
				}
			}
			if m < db.minTok[rn] {
				db.minTok[rn] = m
				changed = true
			}
		}
	}
	// symbols, parents, prefixes
	for _, cs := range db.ctx {
		set := map[string]bool{}
		collectSyms(cs.body, set)
		for s := range set {
			cs.syms = append(cs.syms, s)
			if unicode.IsLower(rune(s[0])) {
				for _, k := range db.kinds[s] {
					db.parents[k] = append(db.parents[k], cs.name)
				}
			}
		}
		sort.Strings(cs.syms)
		cs.pre, cs.preOK = firstK(cs.body, 3)
		cs.suf, _ = firstK(reverseNode(cs.body), 1)
		_, nl := nonLastSyms(cs.body)
		_, nf := nonLastSyms(reverseNode(cs.body))
		cs.nonLast, cs.nonFirst = sortedSet(nl), sortedSet(nf)
	}
	for k := range db.parents {
		sort.Strings(db.parents[k])
		db.parents[k] = uniq(db.parents[k])
	}
	return db, nil
}

func uniq(s []string) []string {
	var out []string
	for i, x := range s {
		if i == 0 || x != s[i-1] {
			out = append(out, x)
		}
	}
	return out
}

func collectSyms(n *gNode, set map[string]bool) {
	if n.kind == "sym" {
		set[n.sym] = true
	}
	for _, k := range n.kids {
		collectSyms(k, set)
	}
}

func (db *shapeDB) nullableNode(n *gNode) bool {
	if n.never {
		return false
	}
	switch n.kind {
	case "sym":
		if n.tok {
			return false
		}
		return db.nullable[n.sym]
	case "seq":
		for _, k := range n.kids {
			if !db.nullableNode(k) {
				return false
			}
		}
		return true
	case "alt":
		for _, k := range n.kids {
			if db.nullableNode(k) {
				return true
			}
		}
		return false
	case "opt", "star":
		return true
	case "plus":
		return db.nullableNode(n.kids[0])
	}
	return false
}

func reverseNode(n *gNode) *gNode {
	c := &gNode{kind: n.kind, sym: n.sym, tok: n.tok, id: n.id, never: n.never}
	for i := len(n.kids) - 1; i >= 0; i-- {
		c.kids = append(c.kids, reverseNode(n.kids[i]))
	}
	if n.kind != "seq" {
		// order of alternatives is irrelevant; keep as is for determinism
		c.kids = nil
		for _, k := range n.kids {
			c.kids = append(c.kids, reverseNode(k))
		}
	}
	return c
}

// firstK: the set of child-symbol words of length <= k that can begin a match; a word shorter than k is a whole match.
// Children of a node are direct symbols (a rule reference is one child, whatever it derives).
func firstK(n *gNode, k int) ([][]string, bool) {
	words := fk(n, k)
	if len(words) > 400 {
		return nil, false
	}
	var out [][]string
	keys := make([]string, 0, len(words))
	for w := range words {
		keys = append(keys, w)
	}
	sort.Strings(keys)
	for _, w := range keys {
		if w == "" {
			out = append(out, nil)
		} else {
			out = append(out, strings.Split(w, " "))
		}
	}
	return out, true
}

func wlen(w string) int {
	if w == "" {
		return 0
	}
	return strings.Count(w, " ") + 1
}

func catK(a, b map[string]bool, k int) map[string]bool {
	out := map[string]bool{}
	for x := range a {
		if wlen(x) >= k {
			out[x] = true
			continue
		}
		for y := range b {
			w := strings.TrimSpace(x + " " + y)
			parts := strings.Fields(w)
			if len(parts) > k {
				parts = parts[:k]
			}
			out[strings.Join(parts, " ")] = true
		}
	}
	return out
}

func fk(n *gNode, k int) map[string]bool {
	if n.never {
		return map[string]bool{}
	}
	switch n.kind {
	case "sym":
		return map[string]bool{n.sym: true}
	case "seq":
		cur := map[string]bool{"": true}
		for _, c := range n.kids {
			cur = catK(cur, fk(c, k), k)
			if len(cur) > 2000 {
				return cur
			}
		}
		return cur
	case "alt":
		out := map[string]bool{}
		for _, c := range n.kids {
			for w := range fk(c, k) {
				out[w] = true
			}
		}
		return out
	case "opt":
		out := fk(n.kids[0], k)
		out[""] = true
		return out
	case "star", "plus":
		one := fk(n.kids[0], k)
		cur := map[string]bool{}
		if n.kind == "star" {
			cur[""] = true
		}
		acc := map[string]bool{"": true}
		for i := 0; i < k+1; i++ {
			acc = catK(acc, one, k)
			for w := range acc {
				cur[w] = true
			}
		}
		return cur
	}
	return map[string]bool{"": true}
}

func sortedSet(m map[string]bool) []string {
	var out []string
	for k := range m {
		out = append(out, k)
	}
	sort.Strings(out)
	return out
}

// nonLastSyms: all symbols of n, and those that can occur at a position other than the last of a match
func nonLastSyms(n *gNode) (all, nl map[string]bool) {
	all, nl = map[string]bool{}, map[string]bool{}
	if n.never {
		return
	}
	switch n.kind {
	case "sym":
		all[n.sym] = true
	case "seq":
		for _, k := range n.kids {
			a, l := nonLastSyms(k)
			if len(a) > 0 {
				for s := range all {
					nl[s] = true // something can follow
				}
			}
			for s := range a {
				all[s] = true
			}
			for s := range l {
				nl[s] = true
			}
		}
	case "alt", "opt":
		for _, k := range n.kids {
			a, l := nonLastSyms(k)
			for s := range a {
				all[s] = true
			}
			for s := range l {
				nl[s] = true
			}
		}
	case "star", "plus":
		a, _ := nonLastSyms(n.kids[0])
		for s := range a {
			all[s] = true
			nl[s] = true
		}
	}
	return
}

func (db *shapeDB) minTokNode(n *gNode) int {
	const inf = 1 << 20
	if n.never {
		return inf
	}
	switch n.kind {
	case "sym":
		if n.tok {
			if n.sym == "EOF" {
				return 0
			}
			return 1
		}
		if v, ok := db.minTok[n.sym]; ok {
			return v
		}
		return 0
	case "seq":
		t := 0
		for _, k := range n.kids {
			t += db.minTokNode(k)
			if t >= inf {
				return inf
			}
		}
		return t
	case "alt":
		m := inf
		for _, k := range n.kids {
			if v := db.minTokNode(k); v < m {
				m = v
			}
		}
		return m
	case "opt", "star":
		return 0
	case "plus":
		return db.minTokNode(n.kids[0])
	}
	return 0
}
