package main

import (
	"go/constant"
	"fmt"
	"go/types"
	"strings"

	"golang.org/x/tools/go/ssa"
)

// Assumed contracts of external (standard library / third party) functions.
// Every handler used in a run is listed in the evidence under external_contracts_used.

type extFn func(e *enc, x *ssa.Call, args []Term) bool

func def(sort string, f func(a []Term) Term) extFn {
	return func(e *enc, x *ssa.Call, args []Term) bool {
		e.fr.val[x] = e.define("x_"+x.Name(), sort, f(args))
		return true
	}
}

func noop(e *enc, x *ssa.Call, args []Term) bool {
	sig := x.Common().Signature()
	if sig.Results().Len() > 0 {
		e.freshResults(x, sig, "out")
	}
	return true
}

// (value, error) results: the value is non-nil when the error is nil
func valueOrError(e *enc, x *ssa.Call, args []Term) bool {
	sig := x.Common().Signature()
	ts := e.freshResults(x, sig, "ve")
	if len(ts) == 2 {
		e.assume(fmt.Sprintf("(=> (= %s 0) (not (= %s 0)))", ts[1], ts[0]))
	}
	return true
}

// path ends here (os.Exit, log.Fatal)
func exits(e *enc, x *ssa.Call, args []Term) bool {
	e.fr.cur = "false"
	return true
}

const builtinPrelude = `(declare-fun Itoa (Int) String)
(declare-fun Upper (String) String)
(declare-fun Lower (String) String)
(declare-fun SplitF (String String) Slice_String)
(declare-fun JoinF (Slice_String String) String)
(declare-fun TrimSpaceF (String) String)
(declare-fun TrimLeftF (String String) String)
(declare-fun AtoiV (String) Int)
`

var strSliceTy = types.NewSlice(types.Typ[types.String])

func (e *enc) needStrSlice() string { return e.so.of(strSliceTy) }

func (e *enc) once(key string, f func()) {
	if !e.ufs[key] {
		e.ufs[key] = true
		f()
	}
}

func isBlank(c string) string {
	return fmt.Sprintf(`(or (= %s " ") (= %s "\u{9}") (= %s "\u{a}") (= %s "\u{d}") (= %s "\u{b}") (= %s "\u{c}"))`, c, c, c, c, c, c)
}

var externals map[string]extFn

func init() {
	externals = map[string]extFn{
		"strings.HasPrefix":  def("Bool", func(a []Term) Term { return fmt.Sprintf("(str.prefixof %s %s)", a[1], a[0]) }),
		"strings.HasSuffix":  def("Bool", func(a []Term) Term { return fmt.Sprintf("(str.suffixof %s %s)", a[1], a[0]) }),
		"strings.Contains":   def("Bool", func(a []Term) Term { return fmt.Sprintf("(str.contains %s %s)", a[0], a[1]) }),
		"strings.ReplaceAll": def("String", func(a []Term) Term { return fmt.Sprintf("(str.replace_all %s %s %s)", a[0], a[1], a[2]) }),
		"strings.Index":      def("Int", func(a []Term) Term { return fmt.Sprintf("(str.indexof %s %s 0)", a[0], a[1]) }),
		"strings.IndexRune": func(e *enc, x *ssa.Call, a []Term) bool {
			// byte model of strings: exact for ASCII runes (a constant rune below 0x80); otherwise left uninterpreted
			if c, ok := x.Call.Args[1].(*ssa.Const); ok && c.Value != nil {
				if v, exact := constant.Int64Val(c.Value); exact && v >= 0 && v < 0x80 {
					e.fr.val[x] = e.define("idxrune", "Int", fmt.Sprintf("(str.indexof %s (str.from_code %d) 0)", a[0], v))
					return true
				}
			}
			return false
		},
		"strings.TrimPrefix": def("String", func(a []Term) Term {
			return fmt.Sprintf("(ite (str.prefixof %s %s) (str.substr %s (str.len %s) (- (str.len %s) (str.len %s))) %s)", a[1], a[0], a[0], a[1], a[0], a[1], a[0])
		}),
		"strings.TrimSuffix": def("String", func(a []Term) Term {
			return fmt.Sprintf("(ite (str.suffixof %s %s) (str.substr %s 0 (- (str.len %s) (str.len %s))) %s)", a[1], a[0], a[0], a[0], a[1], a[0])
		}),
		"strings.Replace": func(e *enc, x *ssa.Call, a []Term) bool {
			// n < 0: replace all; n == 1: first occurrence
			r := e.fresh("repl", "String")
			e.assume(fmt.Sprintf("(=> (< %s 0) (= %s (str.replace_all %s %s %s)))", a[3], r, a[0], a[1], a[2]))
			e.assume(fmt.Sprintf("(=> (= %s 1) (= %s (str.replace %s %s %s)))", a[3], r, a[0], a[1], a[2]))
			e.assume(fmt.Sprintf("(=> (= %s 0) (= %s %s))", a[3], r, a[0]))
			e.fr.val[x] = r
			return true
		},
		"strings.TrimSpace": func(e *enc, x *ssa.Call, a []Term) bool {
			r := e.define("trim", "String", fmt.Sprintf("(TrimSpaceF %s)", a[0]))
			e.trimFacts(a[0], r)
			e.fr.val[x] = r
			return true
		},
		"strings.TrimLeft": func(e *enc, x *ssa.Call, a []Term) bool {
			// result is the suffix of s starting at the first character not in cutset
			r := e.define("triml", "String", fmt.Sprintf("(TrimLeftF %s %s)", a[0], a[1]))
			e.assume(fmt.Sprintf("(str.suffixof %s %s)", r, a[0]))
			e.assume(fmt.Sprintf("(=> (> (str.len %s) 0) (not (str.contains %s (str.at %s 0))))", r, a[1], r))
			e.assume(fmt.Sprintf("(=> (< (str.len %s) (str.len %s)) (str.contains %s (str.at %s 0)))", r, a[0], a[1], a[0]))
			e.fr.val[x] = r
			return true
		},
		"strings.TrimRight": func(e *enc, x *ssa.Call, a []Term) bool {
			r := e.fresh("trimr", "String")
			e.assume(fmt.Sprintf("(str.prefixof %s %s)", r, a[0]))
			e.assume(fmt.Sprintf("(=> (> (str.len %s) 0) (not (str.contains %s (str.at %s (- (str.len %s) 1)))))", r, a[1], r, r))
			e.assume(fmt.Sprintf("(forall ((i Int)) (=> (and (<= (str.len %s) i) (< i (str.len %s))) (str.contains %s (str.at %s i))))", r, a[0], a[1], a[0]))
			e.fr.val[x] = r
			return true
		},
		"strings.ToUpper": func(e *enc, x *ssa.Call, a []Term) bool {
			e.caseAxioms()
			e.fr.val[x] = e.define("up", "String", fmt.Sprintf("(Upper %s)", a[0]))
			return true
		},
		"strings.ToLower": func(e *enc, x *ssa.Call, a []Term) bool {
			e.caseAxioms()
			e.fr.val[x] = e.define("low", "String", fmt.Sprintf("(Lower %s)", a[0]))
			return true
		},
		"strings.Split": func(e *enc, x *ssa.Call, a []Term) bool {
			r := e.define("split", e.needStrSlice(), fmt.Sprintf("(SplitF %s %s)", a[0], a[1]))
			e.splitFacts(a[0], a[1], r)
			e.fr.val[x] = r
			return true
		},
		"strings.Join": func(e *enc, x *ssa.Call, a []Term) bool {
			e.joinAxioms()
			e.fr.val[x] = e.define("join", "String", fmt.Sprintf("(JoinF %s %s)", a[0], a[1]))
			return true
		},
		"strings.SplitN": func(e *enc, x *ssa.Call, a []Term) bool {
			// only n == 2 is given a contract: [before first sep, everything after it], or [s] when sep does not occur
			c, ok := x.Common().Args[2].(*ssa.Const)
			if !ok || c.Int64() != 2 {
				return false
			}
			ss := e.needStrSlice()
			r := e.fresh("splitn", ss)
			e.assumps["strings.SplitN(s, sep, 2) contract: [s] if sep (non-empty) does not occur, else [text before the first occurrence, text after it]"] = true
			e.assume(fmt.Sprintf(`(let ((i (str.indexof %[2]s %[3]s 0))) (and (not (nil_%[1]s %[4]s)) (=> (> (str.len %[3]s) 0)
  (ite (str.contains %[2]s %[3]s)
     (and (= (len_%[1]s %[4]s) 2) (= (select (arr_%[1]s %[4]s) 0) (str.substr %[2]s 0 i))
          (= (select (arr_%[1]s %[4]s) 1) (str.substr %[2]s (+ i (str.len %[3]s)) (- (str.len %[2]s) (+ i (str.len %[3]s))))))
     (and (= (len_%[1]s %[4]s) 1) (= (select (arr_%[1]s %[4]s) 0) %[2]s))))))`, ss, a[0], a[1], r))
			e.fr.val[x] = r
			return true
		},
		"strconv.Atoi": func(e *enc, x *ssa.Call, a []Term) bool {
			// (value, error): the value is a function of the text; it is 0 when the text is not a number ("-" for binary files)
			f := e.uf("AtoiV", []string{"String"}, "Int")
			v := e.define("atoi", "Int", fmt.Sprintf("(%s %s)", f, a[0]))
			e.once("atoi#ax", func() {
				e.decls = append(e.decls, "(assert (= (AtoiV \"-\") 0))", "(assert (= (AtoiV \"\") 0))")
				e.assumps["strconv.Atoi: deterministic; returns 0 for \"-\" and \"\" (the error is ignored by the callers)"] = true
			})
			e.fr.tuples[x] = []Term{v, e.fresh("atoierr", "Int")}
			return true
		},
		"(*go/ast.Ident).String": func(e *enc, x *ssa.Call, a []Term) bool {
			// func (id *Ident) String() string: the name, "<nil>" for a nil identifier
			hk := e.heapKey(x.Call.Args[0].Type().Underlying().(*types.Pointer).Elem())
			e.fr.val[x] = e.define("identstr", "String", fmt.Sprintf("(ite (= %s 0) \"<nil>\" (T_ast_Ident.Name (select %s %s)))", a[0], e.mem[hk], a[0]))
			return true
		},
		"reflect.TypeOf": func(e *enc, x *ssa.Call, a []Term) bool {
			// nil for a nil interface value, otherwise a type descriptor determined by the dynamic type
			r := e.define("rtype", "Int", fmt.Sprintf("(ite (= %s 0) 0 (+ 1 (abs (%s %s))))", a[0], e.fKind(), a[0]))
			if e.typeOfArg == nil {
				e.typeOfArg = map[*ssa.Call]Term{}
			}
			e.typeOfArg[x] = a[0]
			// a Go value boxed at the call (reflect.TypeOf(s) with s a string): its dynamic type is its static type
			if mi, ok := x.Call.Args[0].(*ssa.MakeInterface); ok && !isNodeType(mi.X.Type()) && !isIface(mi.X.Type()) {
				if e.typeOfStatic == nil {
					e.typeOfStatic = map[*ssa.Call]string{}
				}
				e.typeOfStatic[x] = mi.X.Type().String()
			}
			e.fr.val[x] = r
			return true
		},
		"io/ioutil.ReadFile": readFileExt, "os.ReadFile": readFileExt,
		"io/ioutil.WriteFile": writeFileExt, "os.WriteFile": writeFileExt,
		"io/ioutil.ReadDir": func(e *enc, x *ssa.Call, a []Term) bool {
			// (entries, error): the entries of a successful listing are non-nil
			ss := e.so.of(x.Call.Signature().Results().At(0).Type())
			r := e.fresh("readdir", ss)
			e.assumps["ioutil.ReadDir: the listed entries are non-nil os.FileInfo values"] = true
			e.assume(fmt.Sprintf("(and (>= (len_%[1]s %[2]s) 0) (forall ((i Int)) (! (=> (and (<= 0 i) (< i (len_%[1]s %[2]s))) (not (= (select (arr_%[1]s %[2]s) i) 0))) :pattern ((select (arr_%[1]s %[2]s) i)))))", ss, r))
			e.fr.tuples[x] = []Term{r, e.fresh("readdirerr", "Int")}
			return true
		},
		"path/filepath.Base": func(e *enc, x *ssa.Call, a []Term) bool {
			e.fr.val[x] = e.define("pbase", "String", e.pathBase(a[0]))
			return true
		},
		"path/filepath.Ext": func(e *enc, x *ssa.Call, a []Term) bool {
			e.fr.val[x] = e.define("pext", "String", e.pathExt(a[0]))
			return true
		},
		"path/filepath.ToSlash": func(e *enc, x *ssa.Call, a []Term) bool {
			e.assumps["the path separator is '/' (filepath.ToSlash is the identity)"] = true
			e.fr.val[x] = a[0]
			return true
		},
		"path/filepath.FromSlash": func(e *enc, x *ssa.Call, a []Term) bool {
			e.assumps["the path separator is '/' (filepath.FromSlash is the identity)"] = true
			e.fr.val[x] = a[0]
			return true
		},
		"strconv.Itoa": def("String", func(a []Term) Term { return fmt.Sprintf("(Itoa %s)", a[0]) }),
		"sort.SearchStrings": func(e *enc, x *ssa.Call, a []Term) bool {
			ss := e.so.of(x.Call.Args[0].Type())
			e.oblige("extpre@sort.SearchStrings", fmt.Sprintf("(forall ((i Int) (j Int)) (=> (and (<= 0 i) (< i j) (< j (len_%s %s))) (str.<= (select (arr_%s %s) i) (select (arr_%s %s) j))))", ss, a[0], ss, a[0], ss, a[0]), x.Pos(), "sort.SearchStrings requires a slice sorted in increasing order")
			r := e.fresh("search", "Int")
			e.assume(fmt.Sprintf("(and (<= 0 %s) (<= %s (len_%s %s)))", r, r, ss, a[0]))
			e.fr.val[x] = r
			return true
		},
		"fmt.Println": noop, "fmt.Printf": noop, "fmt.Print": noop, "fmt.Fprintf": noop, "fmt.Fprintln": noop, "fmt.Fprint": noop,
		"log.Println": noop, "log.Printf": noop, "log.Print": noop,
		"os.Stat": statExt, "os.Lstat": statExt, "os.Open": valueOrError, "os.Create": valueOrError, "os.OpenFile": valueOrError,
		"os.Exit": exits, "log.Fatal": exits, "log.Fatalf": exits, "log.Fatalln": exits,
		"(*regexp.Regexp).MatchString":        regexMatch,
		"(*regexp.Regexp).FindString":         regexFind,
		"(*regexp.Regexp).FindStringSubmatch": regexSubmatch,
		"(*regexp.Regexp).FindAllString":      regexFindAll,
		"(*regexp.Regexp).ReplaceAllString":   nil,
	}
	delete(externals, "(*regexp.Regexp).ReplaceAllString")
}

// filepath.Base / filepath.Ext on a '/'-separated system: deterministic functions of the path with per-occurrence facts.
func (e *enc) pathBase(p Term) Term {
	f := e.uf("PathBase", []string{"String"}, "String")
	r := fmt.Sprintf("(%s %s)", f, p)
	e.once("pathbase#"+p, func() {
		e.assumps["filepath.Base contract ('/' separator): the last element, without slash; \".\" for an empty path, \"/\" for a path of slashes only"] = true
		e.assume(fmt.Sprintf("(and (not (= %[1]s \"\")) (or (= %[1]s \"/\") (not (str.contains %[1]s \"/\"))))", r))
		e.assume(fmt.Sprintf("(=> (and (not (= %[2]s \"\")) (not (str.suffixof \"/\" %[2]s))) (and (str.suffixof %[1]s %[2]s) (or (= %[1]s %[2]s) (str.suffixof (str.++ \"/\" %[1]s) %[2]s))))", r, p))
	})
	return r
}

func (e *enc) pathExt(p Term) Term {
	f := e.uf("PathExt", []string{"String"}, "String")
	r := fmt.Sprintf("(%s %s)", f, p)
	base := e.pathBase(p)
	e.once("pathext#"+p, func() {
		e.assumps["filepath.Ext contract: the suffix beginning at the final dot of the last element, empty if that element has no dot"] = true
		e.assume(fmt.Sprintf("(and (str.suffixof %[1]s %[2]s) (or (= %[1]s \"\") (and (str.prefixof \".\" %[1]s) (not (str.contains (str.substr %[1]s 1 (- (str.len %[1]s) 1)) \".\")) (not (str.contains %[1]s \"/\")))))", r, p))
		e.assume(fmt.Sprintf("(=> (and (= %[1]s \"\") (not (= %[2]s \"\")) (not (str.suffixof \"/\" %[2]s))) (not (str.contains %[3]s \".\")))", r, p, base))
	})
	return r
}

// Ghost file system: one memory component mapping a path to the file's content. ReadFile returns the bytes of the current
// content (the error result is unconstrained: callers that go on have checked it), WriteFile replaces it.
const fsKey = "X:fs"

func (e *enc) fsMem() string {
	if _, ok := e.mem[fsKey]; !ok {
		if v, ok := e.init[fsKey]; ok {
			e.mem[fsKey] = v
			return fsKey
		}
		e.memSort[fsKey] = "(Array String String)"
		e.mem[fsKey] = e.fresh("fs0", "(Array String String)")
		e.init[fsKey] = e.mem[fsKey]
		for f := e.fr; f != nil; f = f.parent {
			if f.entryMem != nil {
				if _, ok := f.entryMem[fsKey]; !ok {
					f.entryMem[fsKey] = e.mem[fsKey]
				}
			}
		}
		if e.initMem != nil {
			e.initMem[fsKey] = e.mem[fsKey]
		}
		e.assumps["ghost file system: a file's content changes only through ioutil.WriteFile / os.WriteFile calls of the verified code; ReadFile returns the current content"] = true
	}
	return fsKey
}

func readFileExt(e *enc, x *ssa.Call, a []Term) bool {
	k := e.fsMem()
	bs := e.so.of(x.Call.Signature().Results().At(0).Type())
	bo := e.uf("BytesOf", []string{"String"}, bs)
	so := e.uf("StrOf", []string{bs}, "String")
	content := fmt.Sprintf("(select %s %s)", e.mem[k], a[0])
	r := e.define("filebytes", bs, fmt.Sprintf("(%s %s)", bo, content))
	e.assume(fmt.Sprintf("(and (= (%s %s) %s) (= (len_%s %s) (str.len %s)))", so, r, content, bs, r, content))
	// the error is nil for a readable file (Readable(path) in contracts); otherwise unconstrained
	rd := e.uf("FileReadable", []string{"String"}, "Bool")
	errT := e.fresh("readerr", "Int")
	e.assume(fmt.Sprintf("(=> (%s %s) (= %s 0))", rd, a[0], errT))
	e.fr.tuples[x] = []Term{r, errT}
	return true
}

// os.Stat & co: (info, err); for a path that is Readable the call succeeds
func statExt(e *enc, x *ssa.Call, a []Term) bool {
	if !valueOrError(e, x, a) {
		return false
	}
	if tup, ok := e.fr.tuples[x]; ok && len(tup) == 2 && len(a) >= 1 {
		rd := e.uf("FileReadable", []string{"String"}, "Bool")
		e.assume(fmt.Sprintf("(=> (%s %s) (and (not (= %s 0)) (= %s 0)))", rd, a[0], tup[0], tup[1]))
	}
	return true
}

func writeFileExt(e *enc, x *ssa.Call, a []Term) bool {
	k := e.fsMem()
	bs := e.so.of(x.Call.Args[1].Type())
	so := e.uf("StrOf", []string{bs}, "String")
	e.n++
	name := fmt.Sprintf("m_fs_%d", e.n)
	e.decls = append(e.decls, fmt.Sprintf("(declare-const %s (Array String String))", name))
	e.defs = append(e.defs, fmt.Sprintf("(= %s (store %s %s (%s %s)))", name, e.mem[k], a[0], so, a[1]))
	e.mem[k] = name
	e.fr.val[x] = e.fresh("writeerr", "Int")
	return true
}

func (e *enc) caseAxioms() {
	e.once("case#ax", func() {
		e.assumps["strings.ToUpper/ToLower: length preserving, idempotent, and characterised on ASCII letters only (non-ASCII case mapping is not modelled)"] = true
		e.decls = append(e.decls,
			"(assert (forall ((s String)) (! (= (str.len (Upper s)) (str.len s)) :pattern ((Upper s)))))",
			"(assert (forall ((s String)) (! (= (str.len (Lower s)) (str.len s)) :pattern ((Lower s)))))",
			// prefix compatibility: upper-casing commutes with taking a prefix
			"(assert (forall ((s String) (n Int)) (! (=> (and (<= 0 n) (<= n (str.len s))) (= (str.substr (Upper s) 0 n) (Upper (str.substr s 0 n)))) :pattern ((str.substr (Upper s) 0 n)))))",
			"(assert (forall ((s String) (n Int)) (! (=> (and (<= 0 n) (<= n (str.len s))) (= (str.substr (Lower s) 0 n) (Lower (str.substr s 0 n)))) :pattern ((str.substr (Lower s) 0 n)))))",
		)
	})
}

// trimFacts: ground facts about r = TrimSpaceF(s): r is s[k:k+len r], no blank at either end of r, only blanks cut off at position 0 / last
func (e *enc) trimFacts(s, r Term) {
	pre, post := e.fresh("trimpre", "String"), e.fresh("trimpost", "String")
	e.assumps["strings.TrimSpace contract: input = blanks ++ result ++ blanks, result has no blank at either end (ASCII blanks; U+0085/U+00A0 not modelled)"] = true
	blanks := `(re.* (re.union (str.to_re " ") (re.range "\u{9}" "\u{d}")))`
	e.assume(fmt.Sprintf("(and (= %s (str.++ %s %s %s)) (str.in_re %s %s) (str.in_re %s %s))", s, pre, r, post, pre, blanks, post, blanks))
	e.assume(fmt.Sprintf("(=> (> (str.len %[1]s) 0) (and (not %[2]s) (not %[3]s)))", r, isBlank("(str.at "+r+" 0)"), isBlank("(str.at "+r+" (- (str.len "+r+") 1))")))
}

// splitFacts: ground facts about r = SplitF(s, p)
func (e *enc) splitFacts(s, p, r Term) {
	ss := e.needStrSlice()
	e.assumps["strings.Split contract: first, second and last piece, count >= 1, pieces do not contain the separator (separator non-empty)"] = true
	e.assume(fmt.Sprintf(`(let ((r %[4]s) (s %[2]s) (p %[3]s)) (let ((i (str.indexof s p 0)))
 (and (>= (len_%[1]s r) 1) (not (nil_%[1]s r))
  (=> (> (str.len p) 0) (and
   (= (= (len_%[1]s r) 1) (not (str.contains s p)))
   (= (select (arr_%[1]s r) 0) (ite (str.contains s p) (str.substr s 0 i) s))
   (=> (str.contains s p) (let ((rest (str.substr s (+ i (str.len p)) (- (str.len s) (+ i (str.len p))))))
      (and (= (select (arr_%[1]s r) 1) (ite (str.contains rest p) (str.substr rest 0 (str.indexof rest p 0)) rest))
           (= (= (len_%[1]s r) 2) (not (str.contains rest p))))))
   (str.suffixof (select (arr_%[1]s r) (- (len_%[1]s r) 1)) s)
   (=> (str.contains s p) (str.suffixof (str.++ p (select (arr_%[1]s r) (- (len_%[1]s r) 1))) s))
   (forall ((k Int)) (! (=> (and (<= 0 k) (< k (len_%[1]s r))) (and (not (str.contains (select (arr_%[1]s r) k) p)) (str.contains s (select (arr_%[1]s r) k)))) :pattern ((select (arr_%[1]s r) k))))
  )))))`, ss, s, p, r))
}

func (e *enc) joinAxioms() {
	e.once("join#ax", func() {
		ss := e.needStrSlice()
		e.assumps["strings.Join contract stated for 0, 1 and 2 elements and for appending one element"] = true
		e.decls = append(e.decls, fmt.Sprintf(`(assert (forall ((a %[1]s) (p String)) (! (and
  (=> (<= (len_%[1]s a) 0) (= (JoinF a p) ""))
  (=> (= (len_%[1]s a) 1) (= (JoinF a p) (select (arr_%[1]s a) 0)))
  (=> (= (len_%[1]s a) 2) (= (JoinF a p) (str.++ (select (arr_%[1]s a) 0) p (select (arr_%[1]s a) 1))))) :pattern ((JoinF a p)))))`, ss))
		e.assumps["strings.Join / strings.Split are inverse: Join(Split(s, p), p) == s; Split(Join(a, p), p) has the elements of a when a is non-empty and no element contains p (p non-empty)"] = true
		e.decls = append(e.decls, fmt.Sprintf(`(assert (forall ((s String) (p String)) (! (=> (> (str.len p) 0) (= (JoinF (SplitF s p) p) s)) :pattern ((JoinF (SplitF s p) p)))))`))
		e.decls = append(e.decls, fmt.Sprintf(`(assert (forall ((a %[1]s) (p String)) (! (=> (and (> (str.len p) 0) (>= (len_%[1]s a) 1)
    (forall ((k Int)) (=> (and (<= 0 k) (< k (len_%[1]s a))) (not (str.contains (select (arr_%[1]s a) k) p)))))
   (and (= (len_%[1]s (SplitF (JoinF a p) p)) (len_%[1]s a))
        (forall ((k Int)) (! (=> (and (<= 0 k) (< k (len_%[1]s a))) (= (select (arr_%[1]s (SplitF (JoinF a p) p)) k) (select (arr_%[1]s a) k))) :pattern ((select (arr_%[1]s (SplitF (JoinF a p) p)) k))))))
  :pattern ((SplitF (JoinF a p) p)))))`, ss))
	})
}

// ---------- regular expressions: the pattern is read from the (effectively constant) global's initialiser

func (e *enc) regexOf(v ssa.Value) (string, bool) {
	switch x := v.(type) {
	case *ssa.UnOp:
		if g, ok := x.X.(*ssa.Global); ok {
			sts := e.w.globalStores()[g]
			if len(sts) == 1 && sts[0].st != nil && sts[0].dir && !e.w.gaddr[g] {
				return e.regexOf(sts[0].st.Val)
			}
		}
	case *ssa.Call:
		if cal := x.Common().StaticCallee(); cal != nil && (cal.String() == "regexp.MustCompile") {
			if c, ok := x.Common().Args[0].(*ssa.Const); ok {
				return constString(c), true
			}
			// pattern held in a package-level string variable that is only assigned by its initialiser
			if u, ok := x.Common().Args[0].(*ssa.UnOp); ok {
				if g, ok := u.X.(*ssa.Global); ok {
					sts := e.w.globalStores()[g]
					if len(sts) == 1 && sts[0].st != nil && sts[0].dir && !e.w.gaddr[g] && sts[0].fn.Name() == "init" {
						if c, ok := sts[0].st.Val.(*ssa.Const); ok {
							return constString(c), true
						}
					}
				}
			}
		}
	case *ssa.Extract:
		if call, ok := x.Tuple.(*ssa.Call); ok {
			if cal := call.Common().StaticCallee(); cal != nil && cal.String() == "regexp.Compile" && x.Index == 0 {
				if c, ok := call.Common().Args[0].(*ssa.Const); ok {
					return constString(c), true
				}
			}
		}
	}
	return "", false
}

func constString(c *ssa.Const) string {
	s := c.Value.ExactString()
	if u, err := unquote(s); err == nil {
		return u
	}
	return s
}

func regexMatch(e *enc, x *ssa.Call, a []Term) bool {
	pat, ok := e.regexOf(x.Common().Args[0])
	if !ok {
		return false
	}
	re, err := regexToSMT(pat)
	if err != nil {
		e.note("regexp %q not translated: %v", pat, err)
		return false
	}
	e.extUsed["regexp "+pat] = true
	e.fr.val[x] = e.define("rematch", "Bool", fmt.Sprintf("(str.in_re %s %s)", a[1], re.unanchored()))
	return true
}

func regexFind(e *enc, x *ssa.Call, a []Term) bool {
	pat, ok := e.regexOf(x.Common().Args[0])
	if !ok {
		return false
	}
	re, err := regexToSMT(pat)
	if err != nil {
		e.note("regexp %q not translated: %v", pat, err)
		return false
	}
	e.extUsed["regexp "+pat] = true
	r := e.fresh("refind", "String")
	// result is "" when there is no match, otherwise a substring of s that matches the expression (leftmost-first choice not modelled)
	pos := "(str.contains " + a[1] + " " + r + ")"
	if re.anchorStart {
		pos = "(str.prefixof " + r + " " + a[1] + ")"
	}
	if re.anchorEnd {
		pos = "(and " + pos + " (str.suffixof " + r + " " + a[1] + "))"
	}
	if re.firstLit != "" {
		pos = "(and " + pos + " (str.prefixof " + smtStr(re.firstLit) + " " + r + "))"
	}
	if re.lastLit != "" {
		pos = "(and " + pos + " (str.suffixof " + smtStr(re.lastLit) + " " + r + "))"
	}
	if len(re.firstLit) == 1 && len(re.lastLit) == 1 && re.minLen >= 2 {
		pos = fmt.Sprintf("(and %s (= %s (str.++ %s (str.substr %s 1 (- (str.len %s) 2)) %s)))", pos, r, smtStr(re.firstLit), r, r, smtStr(re.lastLit))
	}
	e.assume(fmt.Sprintf("(ite (str.in_re %s %s) (and %s (str.in_re %s %s) (>= (str.len %s) %d) (<= (str.len %s) (str.len %s))) (= %s \"\"))", a[1], re.unanchored(), pos, r, re.core(), r, re.minLen, r, a[1], r))
	e.fr.val[x] = r
	return true
}

// reSubTerm: FindStringSubmatch is a deterministic function of (expression, input): one uninterpreted function per expression
func (e *enc) reSubTerm(pat string, s Term) (Term, *smtRegex, error) {
	re, err := regexToSMT(pat)
	if err != nil {
		return "", nil, err
	}
	ss := e.needStrSlice()
	f := e.uf("resub_"+clean(fmt.Sprintf("%x", hashStr(pat))), []string{"String"}, ss)
	if e.rePats == nil {
		e.rePats = map[string]string{}
	}
	e.rePats[f] = pat
	return fmt.Sprintf("(%s %s)", f, s), re, nil
}

func hashStr(s string) uint32 {
	var h uint32 = 2166136261
	for i := 0; i < len(s); i++ {
		h ^= uint32(s[i])
		h *= 16777619
	}
	return h
}

// reSubFacts: what is assumed about r = FindStringSubmatch(s) (leftmost-first / greedy choice is NOT modelled)
func (e *enc) reSubFacts(pat string, re *smtRegex, s, r Term) {
	ss := e.needStrSlice()
	n := re.ngroups + 1
	e.assumps["regexp.FindStringSubmatch contract for "+pat+": nil iff no match; otherwise 1+groups strings, element 0 is a matching substring that decomposes into the groups and the literal / non-captured pieces between them; which of several possible matches is returned (leftmost-first, greedy) is not modelled"] = true
	pos := fmt.Sprintf("(str.contains %s (select (arr_%s %s) 0))", s, ss, r)
	if re.anchorStart {
		pos = fmt.Sprintf("(str.prefixof (select (arr_%s %s) 0) %s)", ss, r, s)
	}
	if re.anchorEnd {
		pos = fmt.Sprintf("(and %s (str.suffixof (select (arr_%s %s) 0) %s))", pos, ss, r, s)
	}
	e.assume(fmt.Sprintf("(ite (str.in_re %s %s) (and (= (len_%s %s) %d) (not (nil_%s %s)) %s (str.in_re (select (arr_%s %s) 0) %s)) (and (nil_%s %s) (= (len_%s %s) 0)))",
		s, re.unanchored(), ss, r, n, ss, r, pos, ss, r, re.core(), ss, r, ss, r))
	for i := 1; i < n; i++ {
		e.assume(fmt.Sprintf("(=> (= (len_%s %s) %d) (str.contains (select (arr_%s %s) 0) (select (arr_%s %s) %d)))", ss, r, n, ss, r, ss, r, i))
		e.assume(fmt.Sprintf("(=> (= (len_%s %s) %d) (and (str.contains %s (select (arr_%s %s) %d)) (<= (str.len (select (arr_%s %s) %d)) (str.len %s))))", ss, r, n, s, ss, r, i, ss, r, i, s))
		if g := re.groups[i-1]; g != "" {
			e.assume(fmt.Sprintf("(=> (= (len_%s %s) %d) (str.in_re (select (arr_%s %s) %d) %s))", ss, r, n, ss, r, i, g))
		}
	}
	// structural decomposition of the whole match when the expression is a top-level concatenation
	if len(re.parts) > 0 {
		var pieces []string
		for _, p := range re.parts {
			switch {
			case p.group > 0:
				pieces = append(pieces, fmt.Sprintf("(select (arr_%s %s) %d)", ss, r, p.group))
			case p.lit != "":
				pieces = append(pieces, smtStr(p.lit))
			default:
				c := e.fresh("repiece", "String")
				e.assume(fmt.Sprintf("(=> (= (len_%s %s) %d) (str.in_re %s %s))", ss, r, n, c, p.re))
				pieces = append(pieces, c)
			}
		}
		cat := pieces[0]
		if len(pieces) > 1 {
			cat = "(str.++ " + strings.Join(pieces, " ") + ")"
		}
		e.assume(fmt.Sprintf("(=> (= (len_%s %s) %d) (= (select (arr_%s %s) 0) %s))", ss, r, n, ss, r, cat))
	}
}

// FindAllString(s, -1): the list of non-overlapping matches; only emptiness is related to MatchString
func regexFindAll(e *enc, x *ssa.Call, a []Term) bool {
	pat, ok := e.regexOf(x.Common().Args[0])
	if !ok {
		return false
	}
	re, err := regexToSMT(pat)
	if err != nil {
		return false
	}
	e.extUsed["regexp "+pat] = true
	ss := e.needStrSlice()
	f := e.uf("refindall_"+clean(fmt.Sprintf("%x", hashStr(pat))), []string{"String"}, ss)
	r := e.define("refindall", ss, fmt.Sprintf("(%s %s)", f, a[1]))
	e.assume(fmt.Sprintf("(and (>= (len_%s %s) 0) (= (> (len_%s %s) 0) (str.in_re %s %s)))", ss, r, ss, r, a[1], re.unanchored()))
	e.fr.val[x] = r
	return true
}

func regexSubmatch(e *enc, x *ssa.Call, a []Term) bool {
	pat, ok := e.regexOf(x.Common().Args[0])
	if !ok {
		return false
	}
	rt, re, err := e.reSubTerm(pat, a[1])
	if err != nil {
		e.note("regexp %q not translated: %v", pat, err)
		return false
	}
	e.extUsed["regexp "+pat] = true
	r := e.define("resub", e.needStrSlice(), rt)
	e.reSubFacts(pat, re, a[1], r)
	e.fr.val[x] = r
	return true
}

func unquote(s string) (string, error) {
	if len(s) >= 2 && s[0] == '"' {
		var out strings.Builder
		_, err := fmt.Sscanf(s, "%q", new(string))
		if err != nil {
			return "", err
		}
		var v string
		fmt.Sscanf(s, "%q", &v)
		out.WriteString(v)
		return out.String(), nil
	}
	return s, nil
}
