package main

import (
	"fmt"
	"regexp/syntax"
	"strings"
)

// Translation of Go regular expressions (RE2 syntax) to SMT-LIB regular expressions.
// Anchors are supported at the two ends only; leftmost-first / greedy disambiguation is not modelled.

type smtRegex struct {
	body        string
	anchorStart bool
	anchorEnd   bool
	ngroups     int
	groups      []string
	minLen      int
	firstLit    string // literal prefix every match starts with ("" if none)
	lastLit     string
	parts       []rePart // top-level concatenation: capture groups, literals, other pieces
}

type rePart struct {
	group int    // capture index (>0) when the piece is exactly a capture group
	lit   string // literal text
	re    string // SMT regex of any other piece
}

func (r *smtRegex) core() string { return r.body }

func (r *smtRegex) unanchored() string {
	parts := []string{}
	if !r.anchorStart {
		parts = append(parts, "re.all")
	}
	parts = append(parts, r.body)
	if !r.anchorEnd {
		parts = append(parts, "re.all")
	}
	if len(parts) == 1 {
		return parts[0]
	}
	return "(re.++ " + strings.Join(parts, " ") + ")"
}

func regexToSMT(pat string) (*smtRegex, error) {
	re, err := syntax.Parse(pat, syntax.Perl)
	if err != nil {
		return nil, err
	}
	out := &smtRegex{ngroups: re.MaxCap()}
	out.groups = make([]string, out.ngroups)
	// strip anchors at the ends of a top-level concatenation
	subs := []*syntax.Regexp{re}
	if re.Op == syntax.OpConcat {
		subs = re.Sub
	}
	if len(subs) > 0 && (subs[0].Op == syntax.OpBeginText || subs[0].Op == syntax.OpBeginLine) {
		out.anchorStart = true
		subs = subs[1:]
	}
	if len(subs) > 0 && (subs[len(subs)-1].Op == syntax.OpEndText || subs[len(subs)-1].Op == syntax.OpEndLine) {
		out.anchorEnd = true
		subs = subs[:len(subs)-1]
	}
	var parts []string
	for _, s := range subs {
		t, err := out.conv(s)
		if err != nil {
			return nil, err
		}
		parts = append(parts, t)
		out.minLen += reMinLen(s)
	}
	for i, sub := range subs {
		switch {
		case sub.Op == syntax.OpCapture:
			out.parts = append(out.parts, rePart{group: sub.Cap})
		case sub.Op == syntax.OpLiteral && sub.Flags&syntax.FoldCase == 0:
			out.parts = append(out.parts, rePart{lit: string(sub.Rune)})
		default:
			out.parts = append(out.parts, rePart{re: parts[i]})
		}
	}
	if len(subs) > 0 {
		out.firstLit = reEdgeLit(subs[0], true)
		out.lastLit = reEdgeLit(subs[len(subs)-1], false)
	}
	switch len(parts) {
	case 0:
		out.body = `(str.to_re "")`
	case 1:
		out.body = parts[0]
	default:
		out.body = "(re.++ " + strings.Join(parts, " ") + ")"
	}
	return out, nil
}

func smtChar(r rune) string {
	if r > 0xff {
		r = 0xff // strings are byte sequences in the model
	}
	return smtStr(string([]byte{byte(r)}))
}

func (o *smtRegex) conv(re *syntax.Regexp) (string, error) {
	switch re.Op {
	case syntax.OpEmptyMatch:
		return `(str.to_re "")`, nil
	case syntax.OpLiteral:
		var b []byte
		for _, r := range re.Rune {
			b = append(b, []byte(string(r))...)
		}
		if re.Flags&syntax.FoldCase != 0 {
			var parts []string
			for _, c := range b {
				lo, up := strings.ToLower(string(c)), strings.ToUpper(string(c))
				if lo != up {
					parts = append(parts, fmt.Sprintf("(re.union (str.to_re %s) (str.to_re %s))", smtStr(lo), smtStr(up)))
				} else {
					parts = append(parts, fmt.Sprintf("(str.to_re %s)", smtStr(string(c))))
				}
			}
			if len(parts) == 1 {
				return parts[0], nil
			}
			return "(re.++ " + strings.Join(parts, " ") + ")", nil
		}
		return fmt.Sprintf("(str.to_re %s)", smtStr(string(b))), nil
	case syntax.OpCharClass:
		var parts []string
		for i := 0; i+1 < len(re.Rune); i += 2 {
			lo, hi := re.Rune[i], re.Rune[i+1]
			if lo > 0xff {
				continue
			}
			if lo == hi {
				parts = append(parts, fmt.Sprintf("(str.to_re %s)", smtChar(lo)))
			} else {
				parts = append(parts, fmt.Sprintf("(re.range %s %s)", smtChar(lo), smtChar(hi)))
			}
		}
		if len(parts) == 0 {
			return "re.none", nil
		}
		if len(parts) == 1 {
			return parts[0], nil
		}
		return "(re.union " + strings.Join(parts, " ") + ")", nil
	case syntax.OpAnyChar:
		return "re.allchar", nil
	case syntax.OpAnyCharNotNL:
		return `(re.diff re.allchar (str.to_re "\u{a}"))`, nil
	case syntax.OpCapture:
		t, err := o.conv(re.Sub[0])
		if err != nil {
			return "", err
		}
		if re.Cap >= 1 && re.Cap <= len(o.groups) {
			o.groups[re.Cap-1] = t
		}
		return t, nil
	case syntax.OpStar:
		t, err := o.conv(re.Sub[0])
		return "(re.* " + t + ")", err
	case syntax.OpPlus:
		t, err := o.conv(re.Sub[0])
		return "(re.+ " + t + ")", err
	case syntax.OpQuest:
		t, err := o.conv(re.Sub[0])
		return "(re.opt " + t + ")", err
	case syntax.OpRepeat:
		t, err := o.conv(re.Sub[0])
		if err != nil {
			return "", err
		}
		if re.Max == -1 {
			return fmt.Sprintf("(re.++ ((_ re.^ %d) %s) (re.* %s))", re.Min, t, t), nil
		}
		return fmt.Sprintf("((_ re.loop %d %d) %s)", re.Min, re.Max, t), nil
	case syntax.OpConcat:
		var parts []string
		for _, s := range re.Sub {
			t, err := o.conv(s)
			if err != nil {
				return "", err
			}
			parts = append(parts, t)
		}
		return "(re.++ " + strings.Join(parts, " ") + ")", nil
	case syntax.OpAlternate:
		var parts []string
		for _, s := range re.Sub {
			t, err := o.conv(s)
			if err != nil {
				return "", err
			}
			parts = append(parts, t)
		}
		return "(re.union " + strings.Join(parts, " ") + ")", nil
	}
	return "", fmt.Errorf("regexp operator %v not supported", re.Op)
}

func reMinLen(re *syntax.Regexp) int {
	switch re.Op {
	case syntax.OpLiteral:
		n := 0
		for _, r := range re.Rune {
			n += len(string(r))
		}
		return n
	case syntax.OpCharClass, syntax.OpAnyChar, syntax.OpAnyCharNotNL:
		return 1
	case syntax.OpCapture, syntax.OpPlus:
		return reMinLen(re.Sub[0])
	case syntax.OpRepeat:
		return re.Min * reMinLen(re.Sub[0])
	case syntax.OpConcat:
		n := 0
		for _, s := range re.Sub {
			n += reMinLen(s)
		}
		return n
	case syntax.OpAlternate:
		m := -1
		for _, s := range re.Sub {
			if k := reMinLen(s); m < 0 || k < m {
				m = k
			}
		}
		if m < 0 {
			return 0
		}
		return m
	}
	return 0
}

func reEdgeLit(re *syntax.Regexp, first bool) string {
	switch re.Op {
	case syntax.OpLiteral:
		if re.Flags&syntax.FoldCase != 0 || len(re.Rune) == 0 {
			return ""
		}
		if first {
			return string(re.Rune[0])
		}
		return string(re.Rune[len(re.Rune)-1])
	case syntax.OpCapture:
		return reEdgeLit(re.Sub[0], first)
	case syntax.OpConcat:
		if first {
			return reEdgeLit(re.Sub[0], first)
		}
		return reEdgeLit(re.Sub[len(re.Sub)-1], first)
	}
	return ""
}
