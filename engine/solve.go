package main

import (
	"bytes"
	"context"
	"fmt"
	"os"
	"os/exec"
	"path/filepath"
	"regexp"
	"sort"
	"strings"
	"sync"
	"time"
)

type SolveResult struct {
	Status  string // unsat sat unknown timeout error
	Solver  string
	Seconds float64
	Output  string
	Others  map[string]string // solver -> status (thorough)
	File    string
	Model   map[string]string
}

var spNameRe = regexp.MustCompile(`sp_[A-Za-z0-9_]+`)
var nmNameRe = regexp.MustCompile(`n[mf]_[A-Za-z0-9_]+`)

// script assembles the SMT-LIB script of one obligation.
// abstractUFStrings: every ground application of an uninterpreted string-valued function (calls through function
// values, pure helpers, node functions, external summaries) is replaced by a fresh string constant, the same constant
// for the same term. Congruence for these functions is lost, which only weakens the hypotheses: a goal proved on the
// abstracted script is proved. String solvers decide word equations over constants far more readily than over terms.
func abstractUFStrings(script string) string {
	ufRe := regexp.MustCompile(`\(declare-fun ((?:dyn|pure|nm|nf|f)_[^ ]+) \([^)]+\) String\)`)
	fns := map[string]bool{}
	for _, m := range ufRe.FindAllStringSubmatch(script, -1) {
		fns[m[1]] = true
	}
	if len(fns) == 0 {
		return script
	}
	idx := strings.Index(script, "(assert")
	if idx < 0 {
		return script
	}
	head, body := script[:idx], script[idx:]
	names := map[string]string{}
	var order []string
	var out strings.Builder
	// single pass with an explicit stack of open-paren positions in out
	var rewrite func(s string) string
	rewrite = func(s string) string {
		var sb strings.Builder
		i := 0
		for i < len(s) {
			if s[i] == '"' {
				j := i + 1
				for j < len(s) {
					if s[j] == '"' {
						if j+1 < len(s) && s[j+1] == '"' {
							j += 2
							continue
						}
						break
					}
					j++
				}
				sb.WriteString(s[i : j+1])
				i = j + 1
				continue
			}
			if s[i] == '(' {
				// find matching paren
				depth, j := 0, i
				inStr := false
				for ; j < len(s); j++ {
					c := s[j]
					if c == '"' {
						inStr = !inStr
					}
					if inStr {
						continue
					}
					if c == '(' {
						depth++
					} else if c == ')' {
						depth--
						if depth == 0 {
							break
						}
					}
				}
				inner := s[i+1 : j]
				hd := inner
				if k := strings.IndexAny(inner, " \n"); k >= 0 {
					hd = inner[:k]
				}
				rew := "(" + rewrite(inner) + ")"
				if fns[hd] && !boundVarRe.MatchString(rew) && !strings.Contains(rew, " x)") && !strings.Contains(rew, " x ") {
					c, ok := names[rew]
					if !ok {
						c = fmt.Sprintf("ufs_%d", len(names))
						names[rew] = c
						order = append(order, rew)
					}
					sb.WriteString(c)
				} else {
					sb.WriteString(rew)
				}
				i = j + 1
				continue
			}
			sb.WriteByte(s[i])
			i++
		}
		return sb.String()
	}
	nb := rewrite(body)
	out.WriteString(head)
	for _, t := range order {
		out.WriteString(fmt.Sprintf("(declare-const %s String)\n", names[t]))
	}
	out.WriteString(nb)
	return out.String()
}

// script assembles the SMT-LIB script of one obligation.
func (e *enc) script(o *Obligation, withValues []string) string {
	return e.scriptMode(o, withValues, false)
}

var defHeadRe = regexp.MustCompile(`^\(= ([A-Za-z_][A-Za-z0-9_.!]*) `)

// sliceDefs: the definitions the goal depends on, and the assumptions that speak about those symbols only.
// Dropping assumptions is sound (the goal is proved from fewer hypotheses); it keeps hard theories out of easy goals.
func sliceDefs(defs []string, seeds string) []bool {
	keep := make([]bool, len(defs))
	rel := map[string]bool{}
	for _, id := range identRe.FindAllString(seeds, -1) {
		rel[id] = true
	}
	head := make([]string, len(defs))
	for i, d := range defs {
		if m := defHeadRe.FindStringSubmatch(d); m != nil {
			head[i] = m[1]
		}
	}
	for changed := true; changed; {
		changed = false
		for i, d := range defs {
			if keep[i] || head[i] == "" || !rel[head[i]] {
				continue
			}
			keep[i] = true
			changed = true
			for _, id := range identRe.FindAllString(d, -1) {
				rel[id] = true
			}
		}
	}
	// assumptions: kept when every declared constant they mention is already relevant (bound variables and function symbols aside)
	for i, d := range defs {
		if keep[i] || head[i] != "" && !rel[head[i]] && !strings.Contains(d, "forall") {
			continue
		}
		if head[i] != "" {
			continue
		}
		ok, any := true, false
		for _, id := range identRe.FindAllString(d, -1) {
			if isGeneratedConst(id) {
				if rel[id] {
					any = true
				} else {
					ok = false
				}
			}
		}
		if ok && any {
			keep[i] = true
		}
	}
	return keep
}

var genConstRe = regexp.MustCompile(`_[0-9]+(_B)?$`)

func isGeneratedConst(id string) bool { return genConstRe.MatchString(id) }

func (e *enc) scriptMode(o *Obligation, withValues []string, sliced bool) string {
	var sb strings.Builder
	if len(withValues) > 0 {
		sb.WriteString("(set-option :produce-models true)\n")
	}
	sb.WriteString("(set-logic ALL)\n")
	for _, d := range e.so.decls {
		sb.WriteString(d + "\n")
	}
	sb.WriteString(builtinPrelude)
	for _, d := range e.ufDecls {
		sb.WriteString(d + "\n")
	}
	var body strings.Builder
	for _, d := range e.decls[:o.NDecl] {
		body.WriteString(d + "\n")
	}
	var keep []bool
	at := o.At
	if e.dropAt {
		at = "true" // the goal without its path condition: a stronger statement, sliced to the goal's own cone
	}
	if sliced {
		keep = sliceDefs(e.defs[:o.NDef], o.Goal+" "+at+" "+o.Extra)
	}
	for i, d := range e.defs[:o.NDef] {
		if keep != nil && !keep[i] {
			continue
		}
		body.WriteString("(assert " + d + ")\n")
	}
	tail := o.Extra + fmt.Sprintf("(assert %s)\n", at)
	if !o.Cover {
		tail += fmt.Sprintf("(assert (not %s))\n", o.Goal)
	}
	// relevant spec functions and axioms
	used := map[string]bool{}
	scan := func(s string) bool {
		changed := false
		for _, m := range spNameRe.FindAllString(s, -1) {
			n := strings.TrimPrefix(m, "sp_")
			if _, ok := e.specSigs[n]; ok && !used[n] {
				used[n] = true
				changed = true
			}
		}
		return changed
	}
	bodyText := body.String()
	scan(bodyText)
	scan(tail)
	axIn := make([]bool, len(e.axioms))
	for changed := true; changed; {
		changed = false
		for n := range used {
			if scan(e.specSigs[n].decl) {
				changed = true
			}
		}
		for i, ax := range e.axioms {
			if axIn[i] {
				continue
			}
			hit := false
			for _, m := range spNameRe.FindAllString(ax.text, -1) {
				if used[strings.TrimPrefix(m, "sp_")] {
					hit = true
				}
			}
			if !hit {
				// axioms over node functions only (no spec function): relevant when one of their functions occurs
				for _, m := range nmNameRe.FindAllString(ax.text, -1) {
					if strings.Contains(bodyText, "("+m+" ") || strings.Contains(tail, "("+m+" ") {
						hit = true
					}
				}
			}
			if hit {
				axIn[i] = true
				changed = true
				scan(ax.text)
			}
		}
	}
	// dependency order
	emitted := map[string]bool{}
	var emit func(n string)
	emit = func(n string) {
		if emitted[n] || !used[n] {
			return
		}
		emitted[n] = true
		for _, m := range spNameRe.FindAllString(e.specSigs[n].decl, -1) {
			d := strings.TrimPrefix(m, "sp_")
			if d != n {
				emit(d)
			}
		}
		sb.WriteString(e.specSigs[n].decl + "\n")
	}
	for _, n := range e.ss.FuncOrder {
		emit(n)
	}
	sb.WriteString(body.String())
	for _, name := range sortedKeys(e.so.cardAx) {
		if strings.Contains(body.String(), "Card_"+name+" ") || strings.Contains(tail, "Card_"+name+" ") {
			for _, a := range e.so.cardAx[name] {
				sb.WriteString(a + "\n")
			}
		}
	}
	for i, ax := range e.axioms {
		if axIn[i] {
			sb.WriteString(fmt.Sprintf("(assert %s) ; axiom %s\n", ax.text, ax.name))
			e.axUsed[ax.name] = true
		}
	}
	sb.WriteString(tail)
	sb.WriteString("(check-sat)\n")
	if len(withValues) > 0 {
		sb.WriteString("(get-value (" + strings.Join(withValues, " ") + "))\n")
	}
	return sb.String()
}

type solverCfg struct {
	name string
	argv func(file string, sec int) []string
}

var solvers = []solverCfg{
	{"z3-5.1.0", func(f string, s int) []string { return []string{"z3-new", fmt.Sprintf("-T:%d", s), f} }},
	{"z3-4.8.12", func(f string, s int) []string { return []string{"z3", fmt.Sprintf("-T:%d", s), f} }},
	{"cvc5-1.0.3", func(f string, s int) []string {
		return []string{"cvc5", fmt.Sprintf("--tlimit=%d", s*1000), "--strings-exp", f}
	}},
}

func runSolver(ctx context.Context, sc solverCfg, file string, sec int) (status string, out string, dur float64) {
	t0 := time.Now()
	argv := sc.argv(file, sec)
	cctx, cancel := context.WithTimeout(ctx, time.Duration(sec+2)*time.Second)
	defer cancel()
	cmd := exec.CommandContext(cctx, argv[0], argv[1:]...)
	var buf bytes.Buffer
	cmd.Stdout = &buf
	cmd.Stderr = &buf
	_ = cmd.Run()
	dur = time.Since(t0).Seconds()
	out = buf.String()
	first := strings.TrimSpace(strings.SplitN(out, "\n", 2)[0])
	switch {
	case first == "unsat" || first == "sat" || first == "unknown":
		status = first
	case strings.Contains(first, "timeout") || cctx.Err() != nil || strings.Contains(out, "interrupted by timeout"):
		status = "timeout"
	case ctx.Err() != nil:
		status = "cancelled"
	default:
		status = "error"
	}
	return
}

// race runs the solvers concurrently; the first definitive answer (unsat / sat) wins unless all is set.
func race(file string, sec int, all bool) *SolveResult {
	ctx, cancel := context.WithCancel(context.Background())
	defer cancel()
	type ans struct {
		sc     solverCfg
		status string
		out    string
		dur    float64
	}
	ch := make(chan ans, len(solvers))
	for _, sc := range solvers {
		go func(sc solverCfg) {
			st, out, d := runSolver(ctx, sc, file, sec)
			ch <- ans{sc, st, out, d}
		}(sc)
	}
	res := &SolveResult{Status: "unknown", Others: map[string]string{}, File: file}
	var firstDef *ans
	var outputs []string
	for i := 0; i < len(solvers); i++ {
		a := <-ch
		if a.status == "cancelled" {
			continue
		}
		res.Others[a.sc.name] = a.status
		if a.status == "error" {
			outputs = append(outputs, a.sc.name+": "+firstLines(a.out, 3))
		}
		if (a.status == "unsat" || a.status == "sat") && firstDef == nil {
			aa := a
			firstDef = &aa
			if !all {
				cancel()
			}
		}
	}
	if firstDef != nil {
		res.Status, res.Solver, res.Seconds, res.Output = firstDef.status, firstDef.sc.name, firstDef.dur, firstLines(firstDef.out, 2)
		if all {
			for s, st := range res.Others {
				if (st == "sat" || st == "unsat") && st != firstDef.status {
					res.Status = "disagreement"
					res.Output = fmt.Sprintf("%s says %s, %s says %s", firstDef.sc.name, firstDef.status, s, st)
				}
			}
		}
		return res
	}
	// no definitive answer
	allTimeout := true
	for _, st := range res.Others {
		if st != "timeout" {
			allTimeout = false
		}
	}
	if allTimeout {
		res.Status = "timeout"
	}
	allErr := len(res.Others) > 0
	for _, st := range res.Others {
		if st != "error" {
			allErr = false
		}
	}
	if allErr {
		res.Status = "error"
	}
	res.Output = strings.Join(outputs, " | ")
	return res
}

func firstLines(s string, n int) string {
	lines := strings.Split(strings.TrimSpace(s), "\n")
	if len(lines) > n {
		lines = lines[:n]
	}
	return strings.Join(lines, " / ")
}

// solveAll discharges the obligations of a set of function results in parallel.
func solveAll(results []*FuncResult, dir string, sec int, all bool, workers int) {
	type job struct {
		r *FuncResult
		o *Obligation
	}
	var jobs []job
	for _, r := range results {
		for _, o := range r.Obls {
			jobs = append(jobs, job{r, o})
		}
	}
	// scripts are assembled sequentially (the encoder is not thread safe), solved in parallel
	files := make([]string, len(jobs))
	for i, j := range jobs {
		name := clean(j.o.Name) + ".smt2"
		if len(name) > 180 {
			name = fmt.Sprintf("%s_%d.smt2", name[:170], i)
		}
		files[i] = filepath.Join(dir, name)
		enc := j.r.Enc
		if j.r.lemmaEncs != nil {
			for k, lo := range j.r.Obls {
				if lo == j.o {
					enc = j.r.lemmaEncs[k]
				}
			}
		}
		txt := enc.script(j.o, nil)
		if len(txt) > 2_000_000 {
			j.o.Result = &SolveResult{Status: "error", Output: fmt.Sprintf("script too large (%d bytes): split the function with contracts on its helpers", len(txt))}
			continue
		}
		os.WriteFile(files[i], []byte(txt), 0644)
	}
	var wg sync.WaitGroup
	ch := make(chan int)
	for w := 0; w < workers; w++ {
		wg.Add(1)
		go func() {
			defer wg.Done()
			for i := range ch {
				if jobs[i].o.Result != nil {
					continue
				}
				t := sec
				if jobs[i].o.Class == "lemma" && t < 40 {
					t = 40 // string lemmas are proved once per run, in isolation; they may take tens of seconds
				}
				jobs[i].o.Result = race(files[i], t, all)
			}
		}()
	}
	for i := range jobs {
		ch <- i
	}
	close(ch)
	wg.Wait()
	// second attempt for undischarged goals: the script sliced to the goal's cone of definitions
	var retry []int
	for i, j := range jobs {
		if !j.o.Cover && j.o.Result != nil && j.o.Result.Status != "unsat" && j.o.Result.Status != "error" && j.o.Goal != "false" {
			retry = append(retry, i)
		}
	}
	if len(retry) == 0 {
		return
	}
	sfiles := map[int]string{}
	afiles := map[int]string{}
	for _, i := range retry {
		j := jobs[i]
		enc := j.r.Enc
		if j.r.lemmaEncs != nil {
			for k, lo := range j.r.Obls {
				if lo == j.o {
					enc = j.r.lemmaEncs[k]
				}
			}
		}
		f := strings.TrimSuffix(files[i], ".smt2") + ".sliced.smt2"
		txt := enc.scriptMode(j.o, nil, true)
		os.WriteFile(f, []byte(txt), 0644)
		sfiles[i] = f
		if a := abstractUFStrings(txt); a != txt {
			fa := strings.TrimSuffix(files[i], ".smt2") + ".abs.smt2"
			os.WriteFile(fa, []byte(a), 0644)
			afiles[i] = fa
		}
	}
	ch2 := make(chan int)
	var wg2 sync.WaitGroup
	for w := 0; w < workers; w++ {
		wg2.Add(1)
		go func() {
			defer wg2.Done()
			for i := range ch2 {
				r := race(sfiles[i], sec, false)
				if r.Status == "unsat" {
					r.Output = "discharged on the script sliced to the goal's cone of definitions"
					jobs[i].o.Result = r
					continue
				}
				if fa, ok := afiles[i]; ok {
					r := race(fa, sec, false)
					if r.Status == "unsat" {
						r.Output = "discharged on the sliced script with string-valued uninterpreted applications abstracted to constants"
						jobs[i].o.Result = r
					}
				}
			}
		}()
	}
	for _, i := range retry {
		ch2 <- i
	}
	close(ch2)
	wg2.Wait()
}

// discharged: did the obligation pass?
func (o *Obligation) discharged() bool {
	if o.Result == nil {
		return false
	}
	if o.Cover {
		return o.Result.Status == "sat" || o.Result.Status == "unknown" || o.Result.Status == "timeout"
	}
	return o.Result.Status == "unsat"
}

func sortObls(obls []*Obligation) {
	sort.SliceStable(obls, func(i, j int) bool { return obls[i].Name < obls[j].Name })
}
