package main

import (
	"os/exec"
	"encoding/json"
	"go/types"
	"flag"
	"fmt"
	"os"
	"path/filepath"
	"sort"
	"strconv"
	"strings"
	"time"

	"golang.org/x/tools/go/ssa"
)

// CheckCfg: /verif/checks/<id>.json
type CheckCfg struct {
	Property string   `json:"property"`
	Contract []string `json:"contract"` // functions verified against their contracts (+ safety sweep)
	Sweep    []string `json:"sweep"`    // functions swept for panic freedom only (no contract needed)
	SweepFiles []string `json:"sweep_files"` // every function declared in these files is swept
	SweepTypes []string `json:"sweep_types"` // every method of these types (pkg.Type) and every function returning them is swept
	NoSweep  []string `json:"nosweep"`  // functions verified against contracts without safety obligations
	Reset    []ResetCfg `json:"reset"`
	Commute  []string `json:"commute"`  // functions whose map-range loops get commutation obligations
	CommuteAll bool   `json:"commute_all"` // every non-test function of the repository that ranges over a map
	CommuteSkip map[string]string `json:"commute_skip"` // function -> reason (not on a report path)
	OutputOrderOK map[string]string `json:"output_order_ok"` // function -> why text emitted inside a map range may follow the map order
	Floor    int      `json:"floor"`    // minimum number of obligations (vacuity guard)
	QuickSec int      `json:"quick_sec"`
	ThoroughSec int   `json:"thorough_sec"`
	Scope    string   `json:"scope"`    // which sentences of the statement the obligations cover
	NotDecided []string `json:"not_decided"`
	Bounded  []string `json:"bounded"`
	Assumptions []string `json:"assumptions"`
}

type ResetCfg struct {
	Constructor string   `json:"constructor"`
	Listener    string   `json:"listener"` // type name whose methods define the read set
	StaleOK     map[string]string `json:"stale_ok"`
}

type KnownFinding struct {
	Property   string `json:"property"`
	Obligation string `json:"obligation"`
	What       string `json:"what"`
	Witness    string `json:"witness,omitempty"`
	Status     string `json:"status,omitempty"` // "" (open) or "fixed"
	Commit     string `json:"commit,omitempty"`
}

type Evidence struct {
	PropertyID string                 `json:"property_id"`
	Tier       string                 `json:"tier"`
	Seed       int                    `json:"seed"`
	Level      string                 `json:"level"`
	Coverage   map[string]interface{} `json:"coverage"`
	Assumptions []string              `json:"assumptions"`
	WallS      float64                `json:"wall_s"`
	Violations int                    `json:"violations"`
}

func loadKnown() []KnownFinding {
	var out struct {
		Findings []KnownFinding `json:"findings"`
	}
	b, err := os.ReadFile(filepath.Join(verifDir, "known_findings.json"))
	if err != nil {
		return nil
	}
	if err := json.Unmarshal(b, &out); err != nil {
		fmt.Fprintln(os.Stderr, "known_findings.json:", err)
	}
	return out.Findings
}

func checkMain(args []string) int {
	t0 := time.Now()
	fs := flag.NewFlagSet("check", flag.ExitOnError)
	tier := fs.String("tier", "", "quick|thorough")
	keep := fs.String("keep", "", "keep SMT scripts in this directory")
	verbose := fs.Bool("v", false, "print every obligation")
	if len(args) < 1 {
		fmt.Fprintln(os.Stderr, "usage: vcgo check <property> [--tier quick|thorough]")
		return 2
	}
	prop := args[0]
	fs.Parse(args[1:])
	if *tier == "" {
		*tier = os.Getenv("VERIF_TIER")
	}
	if *tier == "" {
		*tier = "quick"
	}
	seed, _ := strconv.Atoi(os.Getenv("VERIF_SEED"))
	var cfg CheckCfg
	b, err := os.ReadFile(filepath.Join(verifDir, "checks", prop+".json"))
	if err != nil {
		fmt.Fprintln(os.Stderr, "CHECK-BROKEN", err)
		return 2
	}
	if err := json.Unmarshal(b, &cfg); err != nil {
		fmt.Fprintln(os.Stderr, "CHECK-BROKEN", err)
		return 2
	}
	w, err := loadWorld([]string{"./..."})
	if err != nil {
		fmt.Println("CHECK-BROKEN: /repo does not load:", err)
		return 2
	}
	defer w.Close()
	ss, err := loadSpecs(w)
	if err != nil {
		fmt.Println("CHECK-BROKEN: CONTRACT-ERROR", err)
		return 2
	}
	broken := []string{}
	var missing [][2]string
	var results []*FuncResult
	seen := map[*ssa.Function]bool{}
	add := func(name string, sweep bool, needContract bool) {
		fn, err := w.find(name)
		if err != nil {
			missing = append(missing, [2]string{name, "function under contract not found in the current tree: " + err.Error()})
			return
		}
		if seen[fn] {
			return
		}
		seen[fn] = true
		if needContract && w.contractFor(ss, fn) == nil {
			broken = append(broken, "no contract found for "+name)
			return
		}
		results = append(results, verifyFunc(w, ss, fn, sweep))
	}
	for _, n := range cfg.Contract {
		add(n, true, true)
	}
	for _, n := range cfg.NoSweep {
		add(n, false, true)
	}
	for _, n := range cfg.Sweep {
		add(n, true, false)
	}
	for _, tn := range cfg.SweepTypes {
		fns := w.funcsOfType(tn)
		if len(fns) == 0 {
			missing = append(missing, [2]string{tn, "listener type not found in the current tree: " + tn})
		}
		for _, fn := range fns {
			if !seen[fn] {
				seen[fn] = true
				results = append(results, verifyFunc(w, ss, fn, true))
			}
		}
	}
	for _, f := range cfg.SweepFiles {
		for _, fn := range w.funcsInFile(f) {
			if !seen[fn] {
				seen[fn] = true
				results = append(results, verifyFunc(w, ss, fn, true))
			}
		}
	}
	for _, rc := range cfg.Reset {
		r, err := resetObligations(w, ss, rc)
		if err != nil {
			broken = append(broken, err.Error())
			continue
		}
		results = append(results, r)
	}
	if cfg.CommuteAll {
		for _, fn := range w.allRepoFuncs() {
			if !inRepo(fn) || fn.Blocks == nil || strings.HasSuffix(w.Prog.Fset.Position(fn.Pos()).Filename, "_test.go") {
				continue
			}
			has := false
			for _, b := range fn.Blocks {
				for _, in := range b.Instrs {
					if r, ok := in.(*ssa.Range); ok {
						if _, isMap := r.X.Type().Underlying().(*types.Map); isMap {
							has = true
						}
					}
				}
			}
			if _, skip := cfg.CommuteSkip[fnFull(fn)]; has && !skip {
				cfg.Commute = append(cfg.Commute, fn.Pkg.Pkg.Path()+"."+funcKey(fn))
			}
		}
		sort.Strings(cfg.Commute)
	}
	outputOrderOK = cfg.OutputOrderOK
	for _, n := range cfg.Commute {
		fn, err := w.find(n)
		if err != nil {
			broken = append(broken, err.Error())
			continue
		}
		if os.Getenv("VERIF_DEBUG") != "" {
			fmt.Fprintf(os.Stderr, "[%.1fs] commute %s\n", time.Since(t0).Seconds(), fnFull(fn))
		}
		results = append(results, commuteObligations(w, ss, fn)...)
	}
	lemmaPkgs := map[string]bool{}
	for _, r := range results {
		if r.Fn != nil && r.Fn.Pkg != nil {
			lemmaPkgs[r.Fn.Pkg.Pkg.Path()] = true
		}
	}
	if lr := verifyLemmas(w, ss, lemmaPkgs); len(lr.Obls) > 0 || len(lr.Errors) > 0 {
		results = append(results, lr)
	}
	// a contract clause that cannot be interpreted on the current code (a local, loop or call it names is gone; a
	// function under contract has disappeared) is an obligation that cannot be established, not a tool failure
	var ungenerated []*Obligation
	mismatch := func(fn, msg string) {
		ungenerated = append(ungenerated, &Obligation{Name: fmt.Sprintf("%s/contract#%d", fn, len(ungenerated)+1), Class: "contract", Fn: fn,
			Text: msg, Result: &SolveResult{Status: "not-generated", Output: msg}})
	}
	for _, r := range results {
		for _, e := range r.Errors {
			mismatch(r.Name, e)
		}
	}
	for _, m := range missing {
		mismatch(m[0], m[1])
	}
	sec := cfg.QuickSec
	if sec == 0 {
		sec = 10
	}
	all := false
	if *tier == "thorough" {
		sec = cfg.ThoroughSec
		if sec == 0 {
			sec = 60
		}
		all = true
	}
	dir := *keep
	if dir == "" {
		dir = filepath.Join(w.Scratch, "smt")
	}
	os.MkdirAll(dir, 0755)
	dbg := os.Getenv("VERIF_DEBUG") != ""
	if dbg {
		fmt.Fprintf(os.Stderr, "[%.1fs] encoded %d functions\n", time.Since(t0).Seconds(), len(results))
	}
	solveAll(results, dir, sec, all, 12)
	// third attempt for contract obligations that stay undischarged: the same obligation generated without the safety
	// sweep, i.e. without the "this dereference / index / assertion did not panic" hypotheses that the sweep adds along
	// the path. Fewer hypotheses: a proof found there is a proof; it only helps when those extra facts slow a solver down.
	var again []*FuncResult
	redo := map[string]*Obligation{}
	openKnown := map[string]bool{}
	for _, k := range loadKnown() {
		if k.Status != "fixed" {
			openKnown[k.Obligation] = true
		}
	}
	for _, r := range results {
		if r.Fn == nil || r.Enc == nil || !r.Enc.sweep {
			continue
		}
		need := false
		for _, o := range r.Obls {
			if o.Cover || o.discharged() || o.Result == nil || o.Result.Status == "sat" || o.Result.Status == "not-generated" {
				continue
			}
			if openKnown[o.Name] {
				continue // a recorded finding: not expected to discharge
			}
			switch {
			case o.Class == "post", o.Class == "inv", strings.HasPrefix(o.Class, "inv-"), strings.HasPrefix(o.Class, "loop-assert"), strings.HasPrefix(o.Class, "assert"), strings.HasPrefix(o.Class, "pre@"):
				redo[o.Name] = o
				need = true
			}
		}
		if need {
			again = append(again, verifyFuncMode(w, ss, r.Fn, false, false))
		}
	}
	if len(again) > 0 {
		for _, r := range again {
			var keepO []*Obligation
			for _, o := range r.Obls {
				if _, ok := redo[o.Name]; ok && !o.Cover {
					keepO = append(keepO, o)
				}
			}
			r.Obls = keepO
		}
		d2 := filepath.Join(dir, "nosweep")
		os.MkdirAll(d2, 0755)
		solveAll(again, d2, sec, all, 12)
		for _, r := range again {
			for _, o := range r.Obls {
				if o.discharged() {
					if orig := redo[o.Name]; orig != nil && orig.Text == o.Text {
						res := *o.Result
						res.Output = "discharged on the obligation generated without the safety hypotheses of the sweep"
						orig.Result = &res
					}
				}
			}
		}
	}
	if dbg {
		fmt.Fprintf(os.Stderr, "[%.1fs] solved\n", time.Since(t0).Seconds())
	}

	// verdict
	known := loadKnown()
	isKnown := func(name string) *KnownFinding {
		for i := range known {
			if known[i].Property == prop && known[i].Obligation == name && known[i].Status != "fixed" {
				return &known[i]
			}
		}
		return nil
	}
	var total, discharged, covers int
	bySolver := map[string]int{}
	var solverTime, maxT float64
	var failing []*Obligation
	var knownHit []string
	var samples []interface{}
	fuc, swept := []string{}, []string{}
	inlined, havoc, trusted, exts, ctrs, axs := map[string]bool{}, map[string]bool{}, map[string]string{}, map[string]bool{}, map[string]bool{}, map[string]bool{}
	assump := map[string]bool{}
	oos := map[string]bool{}
	encOf := map[*Obligation]*FuncResult{}
	for _, r := range results {
		if r.Contract != nil {
			fuc = append(fuc, r.Name)
		} else {
			swept = append(swept, r.Name)
		}
		if r.Enc != nil {
			for k := range r.Enc.inlined {
				inlined[k] = true
			}
			for k := range r.Enc.havoced {
				havoc[k] = true
			}
			for k, v := range r.Enc.trusted {
				trusted[k] = v
			}
			for k := range r.Enc.extUsed {
				exts[k] = true
			}
			for k := range r.Enc.ctrUsed {
				ctrs[k] = true
			}
			for k := range r.Enc.axUsed {
				axs[k] = true
			}
			for k := range r.Enc.assumps {
				assump[k] = true
			}
		}
		for _, s := range r.OutOfSubset {
			oos[r.Name+": "+s] = true
		}
		for _, o := range r.Obls {
			encOf[o] = r
			if o.Cover {
				covers++
				if !o.discharged() && !(strings.Contains(o.Name, "/cover.ret#") && someReturnReachable(r)) {
					failing = append(failing, o)
				}
				continue
			}
			if kf := isKnown(o.Name); kf != nil {
				if o.discharged() {
					fmt.Printf("NOTE: known finding no longer reproduces: property=%s %s\n", prop, o.Name)
				} else {
					knownHit = append(knownHit, fmt.Sprintf("KNOWN-FINDING: property=%s %s — %s", prop, o.Name, kf.What))
				}
				continue
			}
			total++
			if o.Result != nil {
				solverTime += o.Result.Seconds
				if o.Result.Seconds > maxT {
					maxT = o.Result.Seconds
				}
			}
			if o.discharged() {
				discharged++
				bySolver[o.Result.Solver]++
				if len(samples) < 6 {
					samples = append(samples, map[string]interface{}{"obligation": o.Name, "clause": trunc(o.Text, 160), "result": o.Result.Status, "solver": o.Result.Solver, "seconds": round3(o.Result.Seconds)})
				}
			} else {
				failing = append(failing, o)
			}
		}
	}
	for _, o := range ungenerated {
		total++
		failing = append(failing, o)
	}
	if total < cfg.Floor && len(ungenerated) == 0 {
		broken = append(broken, fmt.Sprintf("only %d obligations generated, floor is %d (vacuity guard)", total, cfg.Floor))
	}
	sort.Strings(knownHit)
	for _, k := range knownHit {
		fmt.Println(k)
	}
	if *verbose {
		for _, r := range results {
			for _, o := range r.Obls {
				st := "-"
				if o.Result != nil {
					st = o.Result.Status
				}
				fmt.Printf("  %-8s %s   %s\n", st, o.Name, trunc(o.Text, 90))
			}
		}
	}
	// violations
	replayDir := filepath.Join(verifDir, "evidence", "replay", prop)
	os.RemoveAll(replayDir)
	nviol := 0
	sortObls(failing)
	// replays share a time budget; safety obligations first (their models are direct inputs)
	sort.SliceStable(failing, func(i, j int) bool { return replayRank(failing[i]) < replayRank(failing[j]) })
	replayDeadline = time.Now().Add(150 * time.Second)
	if *tier == "thorough" {
		replayDeadline = time.Now().Add(15 * time.Minute)
	}
	for _, o := range failing {
		nviol++
		os.MkdirAll(replayDir, 0755)
		path := filepath.Join(replayDir, clean(strings.TrimPrefix(o.Name, ""))+".json")
		rep := buildReplay(w, encOf[o], o, dir)
		if dbg {
			fmt.Fprintf(os.Stderr, "[%.1fs] replay of %s done: %s\n", time.Since(t0).Seconds(), o.Name, trunc(rep.Note, 100))
		}
		rb, _ := json.MarshalIndent(rep, "", " ")
		os.WriteFile(path, rb, 0644)
		suffix := ""
		if !rep.Confirmed {
			suffix = " no-failing-input-found"
		}
		fmt.Printf("VIOLATION property=%s replay=%s%s\n", prop, path, suffix)
		fmt.Printf("  obligation %s [%s] at %s:%d: %s\n", o.Name, statusOf(o), filepath.Base(o.Pos.Filename), o.Pos.Line, trunc(o.Text, 140))
	}
	// evidence
	ev := Evidence{PropertyID: prop, Tier: *tier, Seed: seed, Level: "proof", WallS: round3(time.Since(t0).Seconds()), Violations: nviol}
	tb := []string{"vcgo (this VC generator: go/ssa -> SMT-LIB), go/ssa lowering, z3 4.8.12 / z3 5.1.0 / cvc5 1.0.3"}
	for _, k := range sortedKeys(exts) {
		tb = append(tb, "external contract (assumed): "+k)
	}
	for _, k := range sortedKeys(axs) {
		tb = append(tb, "prelude axiom: "+k)
	}
	for _, k := range sortedKeys(trusted) {
		tb = append(tb, "trusted contract (body not verified): "+k+" — "+trusted[k])
	}
	sort.Strings(fuc)
	sort.Strings(swept)
	if len(samples) == 0 {
		samples = append(samples, "no obligation discharged in this run")
	}
	ev.Coverage = map[string]interface{}{
		"obligations": total, "discharged": discharged,
		"checker_cmd":  fmt.Sprintf("bin/vcgo check %s --tier %s", prop, *tier),
		"trusted_base": tb,
		"functions_under_contract": fuc, "functions_swept": swept,
		"by_solver": bySolver, "solver_time_s": round3(solverTime), "max_obligation_s": round3(maxT),
		"inlined": sortedKeys(inlined), "havoc": sortedKeys(havoc), "callee_contracts_used": sortedKeys(ctrs),
		"cover_checks": covers, "samples": samples, "known_findings": knownHit,
		"out_of_subset": sortedKeys(oos), "scope": cfg.Scope, "not_decided": cfg.NotDecided, "bounded": cfg.Bounded,
		"solver_timeout_s": sec,
	}
	// thorough tier: the must-fail corpus of this property (seeded changes and hand-written mutants kept under
	// seeded/ and selftest/mutants/) is replayed against scratch copies of the current tree; the outcome is evidence about
	// the check's sensitivity and never changes the verdict on the tree itself
	if len(w.renameNotes) > 0 {
		ev.Coverage["contracts_read_with_renamed_variables"] = w.renameNotes
	}
	if *tier == "thorough" && os.Getenv("VERIF_NO_CORPUS") == "" {
		ev.Coverage["must_fail_corpus"] = runCorpus(prop)
	}
	for _, a := range cfg.Assumptions {
		assump[a] = true
	}
	assump["machine integers are treated as mathematical integers (no overflow modelling)"] = true
	assump["strings are byte sequences; UTF-8 structure only through RuneCount axioms"] = true
	assump["slices are values (length + contents); capacity and backing-array sharing are not modelled"] = true
	ev.Assumptions = sortedKeys(assump)
	os.MkdirAll(filepath.Join(verifDir, "evidence"), 0755)
	eb, _ := json.MarshalIndent(ev, "", " ")
	os.WriteFile(filepath.Join(verifDir, "evidence", prop+".json"), eb, 0644)

	fmt.Printf("%s [%s]: %d obligations, %d discharged, %d known findings, %d cover checks, %d functions, %.1fs\n", prop, *tier, total, discharged, len(knownHit), covers, len(results), time.Since(t0).Seconds())
	if len(broken) > 0 {
		for _, b := range broken {
			fmt.Println("CHECK-BROKEN:", b)
		}
		return 2
	}
	if nviol > 0 {
		return 1
	}
	return 0
}

func statusOf(o *Obligation) string {
	if o.Result == nil {
		return "not-run"
	}
	if o.Cover && o.Result.Status == "unsat" {
		return "vacuous"
	}
	return o.Result.Status
}

func round3(f float64) float64 { return float64(int(f*1000+0.5)) / 1000 }

// funcsOfType: every method declared on the named type ("pkgname.Type") and every package function returning *Type
func (w *World) funcsOfType(name string) []*ssa.Function {
	var out []*ssa.Function
	i := strings.LastIndex(name, ".")
	if i < 0 {
		return nil
	}
	pn, tn := name[:i], name[i+1:]
	for _, fn := range w.allRepoFuncs() {
		if fn.Synthetic != "" || fn.Blocks == nil || fn.Pkg == nil || fn.Pkg.Pkg.Name() != pn || fn.Parent() != nil {
			continue
		}
		if strings.HasSuffix(w.Prog.Fset.Position(fn.Pos()).Filename, "_test.go") {
			continue
		}
		if r := fn.Signature.Recv(); r != nil {
			if nodeTypeName(r.Type()) == tn {
				out = append(out, fn)
			}
			continue
		}
		res := fn.Signature.Results()
		if res.Len() == 1 && nodeTypeName(res.At(0).Type()) == tn {
			if n, ok := res.At(0).Type().(*types.Pointer); ok {
				if nn, ok := n.Elem().(*types.Named); ok && nn.Obj().Pkg() == fn.Pkg.Pkg {
					out = append(out, fn)
				}
			}
		}
	}
	sort.Slice(out, func(i, j int) bool { return fnFull(out[i]) < fnFull(out[j]) })
	return out
}

// funcsInFile: every function (and method, and closure) declared in a repo file (path relative to /repo)
func (w *World) funcsInFile(rel string) []*ssa.Function {
	var out []*ssa.Function
	abs := filepath.Join(repoDir, rel)
	for _, fn := range w.allRepoFuncs() {
		if fn.Synthetic != "" || fn.Blocks == nil {
			continue
		}
		p := w.Prog.Fset.Position(fn.Pos())
		if p.Filename == abs {
			out = append(out, fn)
		}
	}
	sort.Slice(out, func(i, j int) bool { return fnFull(out[i]) < fnFull(out[j]) })
	return out
}

// Replay file content
type Replay struct {
	Property   string            `json:"property,omitempty"`
	Obligation string            `json:"obligation"`
	Class      string            `json:"class"`
	Function   string            `json:"function"`
	Clause     string            `json:"clause"`
	Position   string            `json:"position"`
	Status     string            `json:"status"` // refuted-and-replayed | refuted-not-replayed | undischarged
	Solvers    map[string]string `json:"solvers"`
	SolverOutput string          `json:"solver_output,omitempty"`
	Inputs     map[string]interface{} `json:"inputs,omitempty"`
	Observed   string            `json:"observed,omitempty"`
	Confirmed  bool              `json:"confirmed"`
	Note       string            `json:"note,omitempty"`
}

func buildReplay(w *World, r *FuncResult, o *Obligation, dir string) *Replay {
	rep := &Replay{Obligation: o.Name, Class: o.Class, Function: o.Fn, Clause: o.Text, Position: fmt.Sprintf("%s:%d", o.Pos.Filename, o.Pos.Line), Status: "undischarged"}
	if o.Result != nil {
		rep.Solvers = o.Result.Others
		rep.SolverOutput = o.Result.Output
		if o.Cover {
			rep.Note = "vacuity guard: the assumptions in force make this point unreachable"
			return rep
		}
		if (o.Result.Status == "sat" || o.Result.Status == "unknown" || o.Result.Status == "timeout") && r != nil && r.Enc != nil {
			rep.Status = "refuted-not-replayed"
			tryReplay(w, r, o, dir, rep)
		}
	}
	return rep
}

func replayRank(o *Obligation) int {
	switch {
	case o.Class == "post":
		return 1
	case strings.HasPrefix(o.Class, "inv-"), strings.HasPrefix(o.Class, "pre@"):
		return 2
	}
	return 0
}

// someReturnReachable: dead return statements are not vacuity (the guard wants the function as a whole to be reachable)
func someReturnReachable(r *FuncResult) bool {
	for _, o := range r.Obls {
		if o.Cover && strings.Contains(o.Name, "/cover.ret#") && o.discharged() {
			return true
		}
	}
	return false
}

// runCorpus: apply each stored change of the property to a scratch copy of the current tree and run the quick check on it
func runCorpus(prop string) []map[string]string {
	var out []map[string]string
	self, err := os.Executable()
	if err != nil {
		return out
	}
	var dirs []string
	for _, root := range []string{"seeded", filepath.Join("selftest", "mutants"), filepath.Join("selftest", "benign")} {
		es, _ := os.ReadDir(filepath.Join(verifDir, root))
		for _, e := range es {
			if e.IsDir() {
				dirs = append(dirs, filepath.Join(verifDir, root, e.Name()))
			}
		}
	}
	sort.Strings(dirs)
	for _, d := range dirs {
		mb, err := os.ReadFile(filepath.Join(d, "meta.json"))
		if err != nil {
			continue
		}
		var meta struct {
			Property string `json:"property"`
			Expect   string `json:"expect"`
		}
		if json.Unmarshal(mb, &meta) != nil || meta.Property != prop {
			continue
		}
		patch := filepath.Join(d, "patch.diff")
		if _, err := os.Stat(patch); err != nil {
			continue
		}
		rec := map[string]string{"change": filepath.Base(d), "expected": "caught"}
		if meta.Expect != "" {
			rec["expected"] = meta.Expect
		}
		tmp, err := os.MkdirTemp("", "vcgo-corpus-")
		if err != nil {
			continue
		}
		func() {
			defer os.RemoveAll(tmp)
			repo := filepath.Join(tmp, "repo")
			if b, err := exec.Command("cp", "-r", repoDir, repo).CombinedOutput(); err != nil {
				rec["outcome"] = "scratch copy failed: " + firstLines(string(b), 1)
				return
			}
			os.RemoveAll(filepath.Join(repo, ".git"))
			ap := exec.Command("patch", "-p1", "-s", "-i", patch)
			ap.Dir = repo
			if b, err := ap.CombinedOutput(); err != nil {
				rec["outcome"] = "patch does not apply to the current tree: " + firstLines(string(b), 1)
				return
			}
			vd := filepath.Join(tmp, "verif")
			os.MkdirAll(vd, 0755)
			for _, n := range []string{"checks", "spec", "known_findings.json"} {
				exec.Command("cp", "-r", filepath.Join(verifDir, n), vd).Run()
			}
			cmd := exec.Command(self, "check", prop, "--tier", "quick")
			cmd.Env = append(os.Environ(), "VERIF_REPO="+repo, "VERIF_DIR="+vd, "VERIF_TMP="+tmp)
			b, _ := cmd.CombinedOutput()
			viol := strings.Count(string(b), "\nVIOLATION ") + func() int {
				if strings.HasPrefix(string(b), "VIOLATION ") {
					return 1
				}
				return 0
			}()
			if viol > 0 {
				rec["outcome"] = "caught"
				for _, l := range strings.Split(string(b), "\n") {
					if strings.HasPrefix(strings.TrimSpace(l), "obligation ") {
						rec["first_obligation"] = trunc(strings.TrimSpace(l), 160)
						break
					}
				}
			} else if rec["expected"] == "pass" {
				rec["outcome"] = "pass"
			} else {
				rec["outcome"] = "missed"
			}
		}()
		fmt.Printf("CORPUS %s %s: %s (expected %s)\n", prop, rec["change"], rec["outcome"], rec["expected"])
		out = append(out, rec)
	}
	return out
}

