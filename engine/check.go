package main

func checkMain(args []string) int { return 2 }
